"""Deterministic simulation machinery for aspuru-guzik-group/selfies (see /verif/DESIGN.md)."""
