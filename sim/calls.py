"""Performing one public-API call on the system under test and normalising
what comes back.  Shared by the simulated caller, the oracle interpreters and
the scheduler engine, so all three see results in the same shape."""
import ast
import dataclasses


def norm(v):
    """Return value -> comparable, picklable, hash-seed independent value."""
    if dataclasses.is_dataclass(v) and not isinstance(v, type):
        return ("dc", type(v).__name__) + tuple(
            norm(getattr(v, f.name)) for f in dataclasses.fields(v))
    if isinstance(v, (list, tuple)):
        return tuple(norm(x) for x in v)
    if isinstance(v, (set, frozenset)):
        return ("set",) + tuple(sorted((norm(x) for x in v), key=repr))
    if isinstance(v, dict):
        return ("dict",) + tuple(sorted(((norm(k), norm(x)) for k, x in v.items()), key=repr))
    if isinstance(v, bool) or v is None:
        return v
    for t, conv in ((int, int.__int__), (float, float.__float__), (str, str.__str__)):
        if isinstance(v, t):
            # subclasses (a caller's str / int subclass) by value - by the base type's own
            # conversion, whatever __str__ / __int__ the subclass defines
            return v if type(v) is t else conv(v)
    if hasattr(type(v), "__index__"):
        try:
            return int(v.__index__())     # an integer-like object (numpy integer, a caller's own class) by value
        except Exception:
            pass
    return ("obj", type(v).__name__, repr(v))


def outcome(fn, *a, **kw):
    """('ok', normalised value, raw value) or ('err', exception type name, message, None)"""
    try:
        raw = fn(*a, **kw)
    except RecursionError:
        # never compared: generated inputs keep nesting far below the limit
        return ("err", "RecursionError", "", None)
    except Exception as e:  # library-raised failure: data for the oracle
        # the exception object itself is the 4th element: a caller may keep it (an error list), and
        # with it the traceback and every frame and suspended generator the traceback refers to
        return ("err", type(e).__name__, str(e)[:300], e)
    return ("ok", norm(raw), None, raw)


def parse_arg(lit):
    """Arguments of configuration calls are stored as Python literals so that
    non-JSON values (None, tuples, floats, non-str keys) survive a replay file."""
    return ast.literal_eval(lit)


def apply_table(sf, K):
    """K: None (import state) | ('preset', name) | ('lit', python literal of a dict)."""
    if K is None:
        return
    if K[0] == "preset":
        sf.set_semantic_constraints(K[1])
    else:
        sf.set_semantic_constraints(parse_arg(K[1]))


def do_call(sf, call):
    """call: tuple; returns (tag, value-or-type, message)."""
    kind = call[0]
    if kind == "decode":
        o = outcome(sf.decoder, call[1], compatible=call[2], attribute=call[3])
    elif kind == "encode":
        o = outcome(sf.encoder, call[1], strict=call[2], attribute=call[3])
    elif kind == "alphabet":
        o = outcome(sf.get_semantic_robust_alphabet)
    elif kind == "get":
        o = outcome(sf.get_semantic_constraints)
    elif kind == "preset":
        o = outcome(sf.get_preset_constraints, call[1])
    else:
        raise ValueError("unknown call kind %r" % (kind,))
    return o[0], o[1], o[2]
