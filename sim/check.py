"""Registered entry point:  python -m sim.check --property Cxx --tier quick|thorough

exit 0  the property held on everything explored (KNOWN-FINDING lines allowed)
exit 1  VIOLATION property=<id> replay=<path>
exit 2  harness error / timeout (never a pass, never a violation)
"""
import argparse
import collections
import concurrent.futures as cf
import json
import multiprocessing
import os
import sys
import time

from . import env

HIST_PROPS = ("C06", "C07", "C11", "C12")
SCHED_PROPS = ("C19",)

TIERS = {
    # runs, batch size
    "quick":    {"C06": 2400, "C07": 1600, "C11": 2400, "C12": 2400, "C19": 1200},
    "thorough": {"C06": 60000, "C07": 40000, "C11": 60000, "C12": 60000, "C19": 40000},
}


def main(argv=None):
    env.reexec_if_needed("sim.check")
    ap = argparse.ArgumentParser()
    ap.add_argument("--property", required=True, choices=HIST_PROPS + SCHED_PROPS)
    ap.add_argument("--tier", default=os.environ.get("VERIF_TIER") or "quick", choices=("quick", "thorough"))
    ap.add_argument("--runs", type=int, default=None)
    ap.add_argument("--workers", type=int, default=int(os.environ.get("VERIF_WORKERS", "0")) or min(16, os.cpu_count() or 1))
    ap.add_argument("--no-evidence", action="store_true")
    ap.add_argument("--keep-going", action="store_true", help="do not stop at the first violation")
    ap.add_argument("--digest-only", action="store_true", help="print the event-log digest of the batch and exit (determinism self-test)")
    args = ap.parse_args(argv)
    seed = int(os.environ.get("VERIF_SEED") or 0)
    runs = args.runs or TIERS[args.tier][args.property]
    print("VERIF_SEED=%d property=%s tier=%s runs=%d workers=%d repo=%s" % (
        seed, args.property, args.tier, runs, args.workers, env.REPO), flush=True)
    if args.property in HIST_PROPS:
        from . import runner as engine
        engine_name = "histsim"
    else:
        from . import schedrunner as engine
        engine_name = "schedsim"
    t0 = time.time()
    res = drive(engine, args.property, seed, runs, args.workers, args.keep_going or args.digest_only, args.tier)
    wall = time.time() - t0
    from . import report
    code = report.finish(engine_name, args.property, args.tier, seed, runs, res, wall,
                         write_evidence=not args.no_evidence, digest_only=args.digest_only,
                         workers=args.workers)
    sys.stdout.flush()
    sys.exit(code)


def drive(engine, prop, seed, runs, workers, keep_going, tier="quick"):
    batch = getattr(engine, "BATCH", 8)
    sample_every = max(1, runs // 3)
    ctx = multiprocessing.get_context("fork")
    results = []
    pids = set()
    stop = False
    from . import procs
    ev = ctx.Event()
    with cf.ProcessPoolExecutor(max_workers=workers, mp_context=ctx, initializer=procs.init_pool,
                                initargs=(ev, keep_going, tier)) as pool:
        it = iter(range(0, runs, batch))
        pending = set()

        def submit():
            try:
                s = next(it)
            except StopIteration:
                return False
            idx = list(range(s, min(runs, s + batch)))
            pending.add(pool.submit(engine.run_batch, prop, seed, idx, sample_every))
            return True

        for _ in range(workers * 2):
            if not submit():
                break
        while pending:
            done, pending = cf.wait(pending, return_when=cf.FIRST_COMPLETED)
            for f in done:
                pid, out = f.result()
                pids.add(pid)
                results.extend(out)
                if any(r.get("violation") for r in out) and not keep_going:
                    stop = True
                if sum(1 for r in results if r.get("harness")) >= 6:
                    # something is systematically wrong (e.g. the code under test blocks in a way the
                    # seams do not cover): stop burning time-outs, report the harness error (exit 2)
                    stop = True
                    ev.set()
            if not stop:
                while len(pending) < workers * 2 and submit():
                    pass
        pool.submit(_noop).result()
    results.sort(key=lambda r: r["i"])
    return {"results": results, "worker_pids": len(pids), "stopped_early": stop}


def _noop():
    return None


if __name__ == "__main__":
    main()
