"""Process environment of the simulator.

* the system under test is the ``selfies`` package of ``$VERIF_REPO`` (default
  ``/repo``), imported from its working tree, never from a stale ``.pyc``;
* the harness runs under ``PYTHONHASHSEED=0`` (re-exec), the oracle
  interpreters under a different seed;
* scratch lives in one ``mkdtemp`` directory that the top-level process
  removes at exit.
"""
import atexit
import os
import shutil
import sys
import tempfile

VERIF = os.path.dirname(os.path.dirname(os.path.abspath(__file__)))
REPLAY_DIR = os.environ.get("VERIF_REPLAY_DIR") or os.path.join(VERIF, "replays")
REPO = os.path.abspath(os.environ.get("VERIF_REPO", "/repo"))
HARNESS_HASHSEED = os.environ.get("VERIF_HARNESS_HASHSEED", "0")   # override only for the determinism self-test
ORACLE_HASHSEEDS = ("77", "4242")
GUARD = "SELFIES_VERIF"

_owner_pid = None


def reexec_if_needed(module):
    """Re-exec ``python -m module`` under PYTHONHASHSEED=0 with a private
    byte-code cache directory.  Returns only in the re-exec'd process."""
    if os.environ.get("PYTHONHASHSEED") == HARNESS_HASHSEED and \
            os.environ.get("VERIF_SCRATCH"):
        _adopt_scratch()
        return
    scratch = tempfile.mkdtemp(prefix="selfies-verif-")
    env = dict(os.environ)
    env["PYTHONHASHSEED"] = HARNESS_HASHSEED
    env["VERIF_SCRATCH"] = scratch
    env["VERIF_SCRATCH_OWNER"] = "1"
    env["PYTHONPYCACHEPREFIX"] = os.path.join(scratch, "pyc")
    env[GUARD] = "1"
    env["PYTHONPATH"] = VERIF + os.pathsep + env.get("PYTHONPATH", "")
    os.chdir(VERIF)
    sys.stdout.flush()
    sys.stderr.flush()
    os.execve(sys.executable, [sys.executable, "-m", module] + sys.argv[1:], env)


def _adopt_scratch():
    global _owner_pid
    if os.environ.pop("VERIF_SCRATCH_OWNER", None) == "1":
        _owner_pid = os.getpid()
        atexit.register(_cleanup)
    sys.pycache_prefix = os.path.join(os.environ["VERIF_SCRATCH"], "pyc")


def _cleanup():
    if os.getpid() == _owner_pid:
        shutil.rmtree(os.environ.get("VERIF_SCRATCH", ""), ignore_errors=True)


def scratch_dir():
    return os.environ["VERIF_SCRATCH"]


def import_sut():
    """Import the system under test from REPO; return the package.  Nothing
    of it is *called* here: the importing process stays pristine."""
    if sys.path[0] != REPO:
        sys.path.insert(0, REPO)
    import selfies
    f = os.path.abspath(selfies.__file__)
    if not f.startswith(REPO + os.sep):
        raise RuntimeError("selfies imported from %s, expected under %s" % (f, REPO))
    return selfies
