"""Seeded generation of tables, inputs and API histories.

Everything here is a pure function of the ``random.Random`` it is given; no
set is iterated, no clock is read.  The generator never calls the system under
test: an op list is fixed before the run that executes it starts."""
import json
import math
import random
import re
import zlib

from . import stubs
from .stubs import ELEMENTS, ORGANIC, PRESET_NAMES, key_of

DEFAULT = {
    "H": 1, "F": 1, "Cl": 1, "Br": 1, "I": 1, "B": 3, "B+1": 2, "B-1": 4,
    "O": 2, "O+1": 3, "O-1": 1, "N": 3, "N+1": 4, "N-1": 2, "C": 4, "C+1": 3,
    "C-1": 3, "P": 5, "P+1": 4, "P-1": 6, "S": 6, "S+1": 5, "S-1": 5, "?": 8}
# generator-side guesses of the presets, used only to aim inputs at capacity
# boundaries; verdicts always use the snapshot taken from a pristine interpreter
PRESET_GUESS = {
    "default": dict(DEFAULT),
    "octet_rule": dict(DEFAULT, **{"S": 2, "S+1": 3, "S-1": 1, "P": 3, "P+1": 4, "P-1": 2}),
    "hypervalent": dict(DEFAULT, **{"Cl": 7, "Br": 7, "I": 7, "N": 5}),
}
COMMON = ("C", "N", "O", "S", "P", "F", "Cl", "B", "H", "I", "Br", "Se", "Si", "Fe")


def lit(obj):
    return repr(obj)


# ---------------------------------------------------------------------------
# tables
# ---------------------------------------------------------------------------

def gen_table(rng, family, base):
    """-> well-formed dict.  ``base``: a dict to tweak (current model guess)."""
    if family == "tweak":
        K = dict(base)
        for _ in range(rng.choice((1, 1, 1, 2, 3))):
            u = rng.random()
            if u < 0.55:
                k = rng.choice(list(K))
                K[k] = max(0, K[k] + rng.choice((-2, -1, -1, 1, 1, 2)))
                if rng.random() < 0.06:
                    K[k] = rng.choice((13, 14, 16, 18, 24, 2 ** 70, 10 ** 400))   # far above any usual valence / any machine number
            elif u < 0.8:
                el = rng.choice(COMMON)
                K[key_of(el, rng.choice((1, -1, 2, -2, 3)))] = rng.randint(0, 7)
            elif u < 0.9:
                K["?"] = rng.randint(0, 12)
            elif len(K) > 2:
                k = rng.choice([k for k in K if k != "?"])
                del K[k]
        return K
    if family == "zeros":      # index-alphabet atoms (always in the robust alphabet) with capacity 0 or 1
        K = dict(base) if rng.random() < 0.6 else {"C": 4, "N": 3, "O": 2, "S": 6, "P": 5, "F": 1, "?": rng.randint(0, 8)}
        for k in rng.sample(("C", "N", "O", "S", "P", "?"), rng.randint(1, 3)):
            if rng.random() < 0.5 and k != "?" and k in K:
                del K[k]
                K["?"] = rng.choice((0, 0, 1))
            else:
                K[k] = rng.choice((0, 0, 1))
        K.setdefault("?", rng.randint(0, 8))
        return K
    if family == "small":
        K = {}
        for _ in range(rng.choice((0, 1, 2, 3, 4, 5, 6))):      # 0: a table with nothing but '?' 
            K[key_of(rng.choice(COMMON), rng.choice((0, 0, 0, 1, -1)))] = rng.choice((0, 1, 1, 2, 3, 4, 5, 6))
        K["?"] = rng.randint(0, 9)
        return _shuffle_q(rng, K)
    if family == "large":
        K = {}
        if rng.random() < 0.15:
            # every element, and charged variants on top: 130-300 keys, more than any fixed-size memo holds
            for el in ELEMENTS:
                K[el] = rng.choice((1, 2, 3, 4, 4, 5, 6, 8))
            for _ in range(rng.randint(15, 180)):
                K[key_of(rng.choice(ELEMENTS), rng.choice((1, -1, 2, -2, 3, -3)))] = rng.choice((0, 1, 2, 3, 4, 5, 6, 7))
        for _ in range(rng.randint(10, 40)):
            el = rng.choice(ELEMENTS) if rng.random() < 0.6 else rng.choice(COMMON)
            K[key_of(el, rng.choice((0, 0, 0, 1, -1, 2, -2, 3)))] = rng.choice((0, 1, 2, 3, 4, 5, 6, 7, 8, 9, 10, 11, 12, 13, 14, 16, 20))
        K["?"] = rng.choice((0, 1, 2, 3, 4, 6, 8, 9, 12, 13, 15, 17))
        return _shuffle_q(rng, K)
    if family == "charges":
        K = {}
        for _ in range(rng.randint(1, 8)):
            el = rng.choice(COMMON) if rng.random() < 0.7 else rng.choice(ELEMENTS)
            ch = rng.choice((4, 5, 9, 10, 11, 12, 20, 100, 19, -4, -9, -10, -11, -12, -30, 1, -1))
            K[key_of(el, ch)] = rng.choice((0, 1, 2, 3, 4, 5, 6, 8))
        K["?"] = rng.randint(0, 9)
        return _shuffle_q(rng, K)
    raise ValueError(family)


def _shuffle_q(rng, K):
    """'?' need not be the last key."""
    items = list(K.items())
    if rng.random() < 0.5:
        rng.shuffle(items)
    return dict(items)


# keys that are malformed under any reading of "E, E+C or E-C with E an element
# symbol and C a positive integer": accepting one of them is itself a violation
# of C12 (oracle invalid_update_rejected)
BAD_KEYS = ("Xx", "C1", "", "?+1", "CC", "C+", "C++1", "+1", "C+1+", "C+a", "C-",
            "C+-1", "C +1", "C+1 ", " C", "Cl+", "N+1.0", "O-1-1", "C+1e1", "-", "+", "1", "C+1-", "Zz+2",
            # whitespace / control characters, combining marks and homoglyphs are not element symbols
            "Cl\n", "S+1\n", "O-1\r", "C\t", "\nC", "C+1\x00", "Cl ", "S\n", "N+1\n", "C\u0301", "\u0421", "C+1_0")
# keys a validator may or may not accept (acceptance is not judged by C12), but
# which, once accepted, must be spellable as SELFIES symbols (C07)
ODD_KEYS = ("C+0", "C+01", "N-0", "O+00", "C-\u00b2", "N+\u0661", "S+007", "C+10", "N-10",
            "Fe+20", "O+100", "c", "*", "R", "D", "C+1\u0662", "Fe+2\u0969",
            "N+\uff11", "C+1\u00b2", "N+1\u0660", "C+\u0967\u0966",
            "C+" + "1" * 5000, "Fe-" + "9" * 4400, "N+" + "7" * 4299)      # charges int() refuses / just accepts
BAD_VALUES = ("-1", "-7", "2.0", "2.5", "'3'", "None", "[1]", "(2,)", "-0.0", "1e0", "{}")
BAD_PRESETS = ("octet", "Default", "", "hyper-valent", "default ", "OCTET_RULE", "?", "C",
               "default\n", " default", "\tdefault", "defaul", "octet-rule", "octet rule", "Hypervalent",
               "hypervalent\n", "defaults", "default,octet_rule", "current", "none")
BAD_ARGS = ("None", "4", "2.5", "[('C', 4), ('?', 8)]", "(('?', 8),)", "['?']", "{'?'}",
            "b'default'", "True")
BAD_KEYOBJ = ("1", "None", "('C',)", "2.5", "b'C'")


def gen_bad_set(rng, base):
    """A configuration update the statements list as rejected.  -> (kind, literal)."""
    kind = rng.choice(("no_q", "bad_key", "bad_key", "odd_key", "bad_value", "bad_value",
                       "bad_preset", "bad_arg", "key_obj", "bad_value"))
    if kind == "bad_value" and rng.random() < 0.25 and any(v < 10 ** 9 for v in base.values()):
        # the table in force, spelt with a non-int capacity that compares equal (4.0, 4+0j)
        items = list(base.items())
        if rng.random() < 0.5:
            rng.shuffle(items)
        j = rng.choice([i for i, (k, v) in enumerate(items) if v < 10 ** 9])     # (a float cannot spell 10**400)
        parts = []
        for i, (k, v) in enumerate(items):
            if i == j or (v < 10 ** 9 and rng.random() < 0.2):
                parts.append("%r: %s" % (k, rng.choice(("%d.0" % v, "(%d+0j)" % v))))
            else:
                parts.append("%r: %r" % (k, v))
        return kind, "{" + ", ".join(parts) + "}"
    if kind == "bad_preset":
        return kind, lit(rng.choice(BAD_PRESETS))
    if kind == "bad_arg":
        return kind, rng.choice(BAD_ARGS)
    # a valid table that *differs* from the current one on shared keys, so a
    # partially applied update is visible
    K = dict(base)
    for k in list(K):
        if rng.random() < 0.7:
            K[k] = (K[k] + rng.choice((1, 2, 3))) % 9
    for _ in range(rng.randint(0, 3)):
        K[key_of(rng.choice(COMMON), rng.choice((0, 1, -1, 2)))] = rng.randint(0, 8)
    items = [(k, v) for k, v in K.items()]
    rng.shuffle(items)
    items = items[:rng.choice((0, 1, 2, 4, 8, len(items)))]
    has_q = any(k == "?" for k, _ in items)
    if kind == "no_q":
        items = [(k, v) for k, v in items if k != "?"]
        return kind, _dict_lit(items)
    if not has_q:
        items.insert(rng.randrange(len(items) + 1), ("?", rng.randint(0, 8)))
    pos = rng.randrange(len(items) + 1)
    if rng.random() < 0.5:
        pos = len(items)   # after a full valid prefix
    if kind == "bad_key":
        bad = (lit(rng.choice(BAD_KEYS)), str(rng.randint(0, 6)))
    elif kind == "odd_key":
        bad = (lit(rng.choice(ODD_KEYS)), str(rng.randint(0, 6)))
    elif kind == "key_obj":
        bad = (rng.choice(BAD_KEYOBJ), str(rng.randint(0, 6)))
    else:
        cands = [k for k, _ in items] + ["Se", "C"]
        bad = (lit(rng.choice(cands)), rng.choice(BAD_VALUES))
        items = [(k, v) for k, v in items if lit(k) != bad[0]]
        pos = min(pos, len(items))
    parts = ["%r: %r" % kv for kv in items]
    parts.insert(pos, "%s: %s" % bad)
    return kind, "{" + ", ".join(parts) + "}"


def _dict_lit(items):
    return "{" + ", ".join("%r: %r" % kv for kv in items) + "}"


# ---------------------------------------------------------------------------
# SELFIES inputs
# ---------------------------------------------------------------------------

BRANCH = ("[Branch1]", "[=Branch1]", "[#Branch1]", "[Branch2]", "[=Branch2]", "[#Branch2]", "[Branch3]")
RING = ("[Ring1]", "[=Ring1]", "[Ring2]", "[=Ring2]", "[#Ring1]", "[Ring3]",
        "[-/Ring1]", "[/\\Ring1]", "[\\/Ring2]", "[//Ring1]")
ORG_SYMS = ("[C]", "[=C]", "[#C]", "[N]", "[=N]", "[#N]", "[O]", "[=O]", "[S]", "[=S]", "[#S]",
            "[P]", "[=P]", "[F]", "[Cl]", "[Br]", "[I]", "[B]", "[H]")
NOVEL = ("[CH3]", "[CH2]", "[CH1]", "[=CH1]", "[NH1]", "[NH2+1]", "[NH3+1]", "[N+1]", "[=N+1]",
         "[O-1]", "[OH1]", "[13C]", "[13CH2]", "[2H]", "[C@@H1]", "[C@H1]", "[C@]", "[C@@]",
         "[/C]", "[\\C]", "[/N]", "[\\O]", "[=S+1]", "[S-1]", "[P+1]", "[=P-1]", "[B-1]",
         "[Fe]", "[Fe+2]", "[=Fe]", "[Se]", "[=Se]", "[Te]", "[Si]", "[=Si]", "[SiH2]", "[Na+1]",
         "[Cu+2]", "[Zn]", "[As]", "[Sn]", "[SnH2]", "[Xe]", "[15NH1]", "[18O]", "[C-1]", "[#C-1]",
         "[CH4]", "[CH5]", "[NH4]", "[OH3]", "[SH6]", "[SH7]", "[PH5]", "[PH6]", "[BH3]", "[BH4]",
         "[FH1]", "[FH2]", "[ClH1]", "[HH1]", "[CH0]", "[SeH2]", "[SeH9]", "[C+2]", "[N-2]", "[O+3]")
SPECIAL = ("[nop]", "[epsilon]", "[nop]")
COMPAT = ("[Branch1_1]", "[Branch1_2]", "[Branch2_3]", "[Expl=Ring1]", "[Expl#Ring2]", "[Expl/Ring1]",
          "[Expl\\Ring1]", "[C@@Hexpl]", "[NHexpl]", "[=N+expl]", "[O-expl]", "[Siexpl]", "[/C@Hexpl]", "[nHexpl]")
HUGE_ISOTOPE = "[" + "1" * 4400 + "C]"
INVALID = (HUGE_ISOTOPE, "[C+" + "1" * 45 + "]", "[" + "9" * 30 + "C]", "[N-" + "7" * 29 + "]", "[C@@Hexpl]", "[NHexpl]", "[Branch1_2]", "[Expl=Ring1]", "[=N+expl]", "[Q]", "[C", "[]", "[CH10]", "[c]", "[C+]", "[C+0]", "[=Ring4]", "[Branch4]", "[#Ring1x]",
           "[1]", "[C@@@]", "[Xx]", "[=]", "[ C]", "[C=]", "[CH]", "[Cl-]", "[Branch]", "[$C]")


def atom_syms_of(K):
    out = []
    for k in K:
        if k == "?":
            continue
        for b in ("", "=", "#"):
            out.append("[%s%s]" % (b, k))
    return out


def saturate(sym, n):
    """Root atom followed by n one-atom branches and a tail: the number of F
    in the decoded SMILES is min(capacity, n + 1) -- reveals the capacity."""
    return sym + "[Branch1][C][F]" * min(n, 40) + "[F]"


def hsym(el, ch, h, b=""):
    return "[%s%sH%d%s]" % (b, el, h, ("%+d" % ch) if ch else "")


def gen_selfies(rng, ctx, kind=None):
    """ctx: dict(pool=list of symbols, focus=list of (el, ch, caps...))."""
    kind = kind or rng.choice(("plain", "plain", "rings", "branchy", "focus", "focus", "hflip",
                               "multi", "novel", "chain", "multiidx", "bigring", "stereo"))
    pool = ctx["pool"]
    if kind == "focus" and ctx["focus"]:
        el, ch, caps = rng.choice(ctx["focus"])
        sym = "[%s]" % key_of(el, ch)
        u = rng.random()
        if u < 0.5:
            return saturate(sym, rng.choice((max(caps) + 1, max(caps), 12, 3)))
        if u < 0.7:   # capacity read in ring formation
            return "[C]" + sym + "[C][C]" + rng.choice(("[=Ring1]", "[#Ring1]", "[Ring1]")) + "[Ring2]" + "[=C]" * 2
        if u < 0.85:  # capacity limits the bond into the atom and the rest of the chain
            return "[C]" + "[#%s]" % key_of(el, ch) + "[#C][=C][F]"
        return "".join(rng.choice((sym, "[=%s]" % key_of(el, ch), "[C]", "[=C]", "[Branch1]", "[Ring1]"))
                       for _ in range(rng.randint(2, 25)))
    if kind == "hflip" and ctx["focus"]:
        el, ch, caps = rng.choice(ctx["focus"])
        lo, hi = min(caps), max(caps)
        h = rng.randint(min(9, max(0, lo - 1)), min(9, hi + 1))
        return "[C]" + hsym(el, ch, h, rng.choice(("", "", "="))) + rng.choice(("", "[C]", "[=O]", "[F][F]"))
    if kind == "multiidx":     # 2-3 index symbols are read (Q as a base-16 number), sometimes non-index symbols
        w = []
        for _ in range(rng.randint(2, 8)):
            w.append("".join(rng.choice(ORG_SYMS[:10]) for _ in range(rng.randint(1, 12))))
            sym = rng.choice(("[Branch2]", "[=Branch2]", "[Ring2]", "[=Ring2]", "[Branch3]", "[Ring3]"))
            k = 3 if sym.endswith("3]") else 2
            idxs = [rng.choice(stubs.INDEX_ALPHABET[:4]) for _ in range(k - 1)] + [rng.choice(stubs.INDEX_ALPHABET)]
            if rng.random() < 0.15:
                idxs[rng.randrange(k)] = rng.choice(("[F]", "[Cl]", "[=O]", "[CH2]"))     # not an index symbol
            w.append(sym + "".join(idxs))
        w.append("".join(rng.choice(ORG_SYMS[:6]) for _ in range(rng.randint(0, 40))))
        return "".join(w)
    if kind == "bigring":      # a ring or branch spanning more than 16 atoms
        n = rng.randint(17, 45)
        body = "".join(rng.choice(("[C]", "[C]", "[N]", "[O]", "[=C]")) for _ in range(n))
        q = n - 2 - rng.choice((0, 0, 1, 3))
        tail = rng.choice(("[Ring2]", "[=Ring2]")) + stubs.INDEX_ALPHABET[q // 16] + stubs.INDEX_ALPHABET[q % 16]
        if rng.random() < 0.5:
            return body + tail + "".join(rng.choice(ORG_SYMS[:6]) for _ in range(rng.randint(0, 5)))
        m = rng.randint(17, 30)
        return "[C]" + rng.choice(("[Branch2]", "[=Branch2]")) + stubs.INDEX_ALPHABET[(m - 1) // 16] + \
            stubs.INDEX_ALPHABET[(m - 1) % 16] + "".join(rng.choice(("[C]", "[N]", "[O]")) for _ in range(m)) + "[F]" + body[:10]
    if kind == "stereo":
        pool2 = ("[/C]", "[\\C]", "[/N]", "[\\O]", "[C@@H1]", "[C@H1]", "[C@]", "[C@@]", "[=C]", "[/F]", "[\\Cl]", "[C]",
                 "[N@+1]", "[S@@]", "[/C@@H1]", "[\\C@H1]", "[=N]", "[Branch1][C][F]", "[-/Ring1][Ring1]", "[\\/Ring1][Ring2]",
                 "[/-Ring1][Ring1]", "[//Ring2][Ring1][C]", "[Ring1][Ring2]", "[=Ring1][Ring1]")
        return "".join(rng.choice(pool2) for _ in range(rng.randint(2, 30)))
    if kind == "rings":
        n = rng.randint(4, 40)
        w = [rng.choice(ORG_SYMS[:10]) for _ in range(n)]
        for _ in range(rng.randint(1, 5)):
            w.insert(rng.randrange(2, len(w) + 1), rng.choice(RING) + rng.choice(stubs.INDEX_ALPHABET[:8]))
        return "".join(w)
    if kind == "branchy":
        n = rng.randint(3, 40)
        w = []
        for _ in range(n):
            u = rng.random()
            if u < 0.25:
                w.append(rng.choice(BRANCH) + rng.choice(stubs.INDEX_ALPHABET[:6]))
            elif u < 0.35:
                w.append(rng.choice(RING) + rng.choice(stubs.INDEX_ALPHABET[:4]))
            else:
                w.append(rng.choice(pool))
        return "".join(w)
    if kind == "multi":
        frags = [gen_selfies(rng, ctx, rng.choice(("plain", "chain", "rings"))) for _ in range(rng.randint(2, 4))]
        if rng.random() < 0.35:      # identical fragments (counter-ions, solvent): anything that groups or dedupes them
            f = rng.choice(frags)
            frags += [f] * rng.randint(1, 3)
            rng.shuffle(frags)
        return ".".join(frags)
    if kind == "novel":
        n = rng.randint(1, 20)
        return "".join(rng.choice(NOVEL) if rng.random() < 0.5 else rng.choice(pool) for _ in range(n))
    if kind == "chain":
        return "".join(rng.choice(("[C]", "[=C]", "[N]", "[O]", "[#C]", "[S]", "[=N]")) for _ in range(rng.randint(1, 60)))
    n = rng.randint(1, 50)
    return "".join(rng.choice(pool) for _ in range(n))


def gen_failing_selfies(rng, ctx):
    """Failure in the middle of a derivation: atoms, rings and nested branches
    have been accumulated before the invalid symbol is met."""
    head = gen_selfies(rng, ctx, rng.choice(("branchy", "rings", "novel", "plain")))
    if rng.random() < 0.2:
        # the input breaks off (hanging bracket) in the middle of a multi-symbol index
        sym = rng.choice(("[Branch2]", "[Ring2]", "[=Ring2]", "[Branch3]", "[Ring3]"))
        k = rng.randint(1, 2 if sym.endswith("3]") else 1)
        return head + sym + "".join(rng.choice(stubs.INDEX_ALPHABET[1:]) for _ in range(k)) + rng.choice(("[C", "[", "[Ring1"))
    u = rng.random()
    if u < 0.6:
        bad = rng.choice(INVALID)
    elif u < 0.8 and ctx["focus"]:
        el, ch, caps = rng.choice(ctx["focus"])
        bad = hsym(el, ch, min(9, max(caps) + 1))      # over every capacity of the run
    else:
        bad = rng.choice(("[CH9]", "[FH2]", "[OH9]", "[NH9+1]"))
    tail = gen_selfies(rng, ctx, "plain") if rng.random() < 0.5 else ""
    return head + bad + tail


def gen_flood(rng):
    """>= 130 distinct (element, charge) pairs / distinct novel symbols: evicts
    both 128-entry LRU caches, grows the symbol cache."""
    n = rng.randint(130, 180)
    off = rng.randrange(len(ELEMENTS))
    ch = rng.choice((1, 2, 3, -1, -2))
    syms = []
    for i in range(n):
        el = ELEMENTS[(off + i) % len(ELEMENTS)]
        c = ch if i < len(ELEMENTS) else -ch
        syms.append("[%s%+d]" % (el, c))
    return "".join(syms)


# ---------------------------------------------------------------------------
# SMILES inputs
# ---------------------------------------------------------------------------

SMILES_OK = (
    "c1ccccc1", "C1=CC=CC=C1", "CC(=O)O", "C[N+](C)(C)C", "OS(=O)(=O)O", "FC(F)(F)F", "C(F)(F)(F)(F)F",
    "[CH3][CH2]O", "c1ccncc1", "c1cc[nH]c1", "C[C@H](N)O", "F/C=C/F", "F/C=C\\F", "C1CC1C2CC2",
    "[Fe+2].[O-]C", "ClP(Cl)(Cl)(Cl)Cl", "O=S(=O)=O", "N#N", "C=[N+]=[N-]", "[SeH2]", "OI(=O)=O",
    "c1ccc2ccccc2c1", "C1CCC2(CC1)OCCO2", "N[C@@H](C)C(=O)O", "C[C@]1(F)CCCO1", "O=C1c2ccccc2C(=O)N1",
    "c1ccsc1", "c1ccoc1", "[nH]1cccc1", "Cn1cnc2c1c(=O)n(C)c(=O)n2C", "C%10CC%10", "C1CC1.C1CC1",
    "[13CH4]", "[2H]O[2H]", "[O-][N+](=O)c1ccccc1", "S(F)(F)(F)(F)(F)F", "P(Cl)(Cl)(Cl)(Cl)Cl",
    "BrCl", "[H][H]", "[Na+].[Cl-]", "C(=O)=O", "C#C", "[C-]#[O+]", "CS(C)(=O)=O", "NN(N)N",
    "c1cc[se]c1", "C1=C[Te]C=C1", "[Si](C)(C)(C)C", "B(O)(O)O", "[BH4-]", "[NH4+]", "[OH3+]",
    "F[Xe](F)(F)F", "Cl(=O)(=O)(=O)O", "I(F)(F)(F)(F)(F)(F)F", "N(=O)(=O)O", "C=C=C=C",
    "C:C:C:C", "C1:C:C:C:C:C:1", "N:C:C:N", "C:C", "CC:CC(F):C:C",
    "c12c3ccc1cc2c3", "c12c3c1c2c3c4cc4", "c12c3c1c2cc4cc34", "c12c3c4c1cc3c4c2", "c12c3cc4c1cc4c23", "c12c3ccc1cc2ccc3",
    "c12c3cc4c1c3ccc4c2", "c12c3cc4c3c4ccc1c2", "c12c3ccc1c(F)c2c3", "Oc1oc(c2ccccc2)c(n1)c3ccccc3", "c12c3cc4c1cc4c2cc3",
    "c1cc2c3c(ccc4c3c1ccc4)cc1ccccc12", "c1cc2c3c(ccc4c3c1ccc4)cc1ccccc21", "c1ccc2c(c1)ccc1ccccc12", "c1ccc2c(c1)ccc1ccccc21",
    "CC.CC.CC", "[Na+].[Na+].[O-2]", "O.O.CC(=O)O.O", "C1CC1.C1CC1.C1CC1.N", "[K+].[K+].[K+].[O-]P(=O)([O-])[O-]",
    "[CH3:1][CH2:2]O", "[C:12](F)(F)(F)Cl", "[CH0](F)(F)(F)F", "C[NH0](C)C", "C[NH0+](C)(C)C", "C[SeH0]C", "[13CH0](C)(C)(C)C", "C1CCCCCCCCCCCCCCCCCC1", "C(CCCCCCCCCCCCCCCCCCC)(F)Cl",
    "C1CCCCCCCCCCCCCCCCCC1C2CCCCCCCCCCCCCCCCCC2", "F/C=C/C=C\\C=C/Cl", "C[C@H]1CC[C@@H](C)CC1", "O[C@@H]1CC[C@]21CCC2",
    "[H]C([H])([H])[H]", "[2H]C([3H])=O", "[O--]", "[Fe+++]", "[NH3+][CH2][C](=O)[O-]", "C%11CC%11C%12CC%12",
    "C/C=C/C=C/C", "C[S@](=O)N", "[C@H]1(F)(Cl)CCC1", "O=C(O)[C@@H]1CCCN1", "C12C3C4C1C5C2C3C45",
)
SMILES_BAD = ("c1ccsec1", "c1ccasc1", "Csic", "c1cctec1", "alc", "c1ccsic1", "C:C:C", "C:C:C:C:C", "N:O:C", "c1ccc2c(c1)ccn2", "c1ccc2c(c1)cco2C", "c1cccc1", "c1ccccc1c", "n1cccc1",
              "c12c3ccc1cc2c3c", "c1cc2cccc2c1", "C(", "C1CC", "cc", "[Xx]", "C)", "", "C((C))", "C=", "c1ccc1", "C$C", "C*", "[C", "C1CC2",
              "1CC1", "(C)", "C..C", "C.", "c1cccc1", "[nH]1ccccc1", "C%1", "C[C@@@H]", "C:::C",
              "C1=CC=1", "C(C)(", ".C")


_DATASET = None


def dataset_smiles():
    """Real-world SMILES from the small data files that ship with the repository's tests (data, not
    code under test): hetero-aromatics, stereo centres, salts, charges, ring systems the hand-made
    corpus lacks.  Sorted and de-duplicated, so a pure function of those files; empty if absent."""
    global _DATASET
    if _DATASET is None:
        import csv
        import os
        from . import env
        out = set()
        base = os.path.join(env.REPO, "tests", "test_sets")
        for rel in ("custom_cases.csv", "molnet/clintox.csv", "molnet/bbbp.csv", "molnet/freesolv.csv", "molnet/sider.csv"):
            try:
                with open(os.path.join(base, rel), newline="") as f:
                    rd = csv.DictReader(f)
                    col = next((c for c in (rd.fieldnames or []) if c.strip().lower() == "smiles"), None)
                    if col is None:
                        continue
                    for row in rd:
                        x = (row.get(col) or "").strip()
                        if 0 < len(x) <= 90 and "*" not in x and "$" not in x:
                            out.add(x)
            except OSError:
                continue
        _DATASET = sorted(out)
    return _DATASET


def gen_smiles(rng, ctx):
    u = rng.random()
    tables = ctx["tables"]
    data = dataset_smiles()
    if data and rng.random() < 0.12:
        return None, rng.choice(data)
    if u < 0.55:
        return stubs.gen_mol(rng, tables, rng.choice((4, 8, 14))), None
    if u < 0.65:
        return stubs.gen_aromatic_mol(rng, tables), None
    if u < 0.9:
        return None, rng.choice(SMILES_OK)
    return None, rng.choice(SMILES_BAD)


_BRACKET = re.compile(r"\[([=#/\\\\]?)(\d*)([A-Za-z][a-z]?)(@{0,2})(H\d*)?([+-]\d*)?(:\d+)?\]")


def near_duplicate(rng, text, selfies):
    """``text`` with one bracket atom changed in one attribute (isotope, H count, chirality mark,
    charge, atom class, SELFIES bond prefix); an unbracketed SMILES gets one atom bracketed."""
    ms = [m for m in _BRACKET.finditer(text) if not (selfies and (m.group(3) in ("Ring", "Branch", "nop")
                                                                 or "Ring" in m.group(0) or "Branch" in m.group(0)))]
    if not ms:
        if selfies:
            return text
        i = text.find("C")
        if i < 0 or text[i:i + 2] == "Cl":
            return text
        return text[:i] + rng.choice(("[13C]", "[C:1]", "[CH2]", "[C@@]", "[C+]")) + text[i + 1:]
    m = rng.choice(ms)
    pre, iso, el, chi, h, ch, cls = (m.group(i) or "" for i in range(1, 8))
    what = rng.choice(("iso", "iso", "h", "chi", "charge", "class", "prefix"))
    if what == "iso":
        iso = rng.choice(("13", "14", "2", "1", "0", "013", "")) if iso else rng.choice(("13", "14", "2", "0", "00"))
    elif what == "h":
        if selfies:
            h = rng.choice(("H1", "H2", "H3", "")) if h else rng.choice(("H1", "H2"))
        else:
            h = rng.choice(("H", "H2", "H3", "H0", "")) if h else rng.choice(("H", "H2"))
    elif what == "chi":
        chi = {"": "@", "@": "@@", "@@": "@"}[chi]
    elif what == "charge":
        if selfies:
            ch = rng.choice(("+1", "-1", "+2", "")) if ch else rng.choice(("+1", "-1"))
        else:
            ch = rng.choice(("+", "-", "+1", "-1", "++", "+2", "")) if ch else rng.choice(("+", "-", "+1"))
    elif what == "class" and not selfies:
        cls = rng.choice((":1", ":2", ":12", ""))
    else:
        pre = rng.choice(("", "=", "#")) if selfies else pre
    return text[:m.start()] + "[" + pre + iso + el + chi + h + ch + cls + "]" + text[m.end():]


def derive_failing_smiles(rng):
    """A sound SMILES damaged in one place: ring-closure ends that disagree on the bond symbol (every
    pair of different symbols, directional ones included), a ring left open, an unbalanced or empty
    branch, a doubled bond symbol, a ring bond from an atom to itself.  Most of them are rejected
    somewhere in the middle of parsing; whether one is, is for the oracle to say."""
    data = dataset_smiles()
    s = rng.choice(data) if data and rng.random() < 0.4 else rng.choice(SMILES_OK)
    pairs, open_ = [], {}
    for m in _RING_TOK.finditer(s):
        if m.group(2) is None:
            continue
        if m.group(2) in open_:
            pairs.append((open_.pop(m.group(2)), m))
        else:
            open_[m.group(2)] = m
    how = rng.choice(("mismatch", "mismatch", "mismatch", "open", "paren", "double", "self", "empty"))
    if how in ("mismatch", "open", "self") and not pairs:
        how = "paren"
    if how == "mismatch":
        a, b = rng.choice(pairs)
        x, y = rng.sample(("-", "=", "#", ":", "/", "\\", "-", "/"), 2)
        if x == y:
            y = "=" if x != "=" else "#"
        return s[:a.start()] + x + a.group(2) + s[a.end():b.start()] + y + b.group(2) + s[b.end():]
    if how == "open":
        a, b = rng.choice(pairs)
        return s[:b.start()] + s[b.end():]
    if how == "self":
        a, b = rng.choice(pairs)
        return s[:a.end()] + a.group(2) + s[a.end():]
    if how == "paren":
        i = rng.randrange(len(s) + 1)
        return s[:i] + rng.choice(("(", ")", "()", "(C", "))")) + s[i:]
    if how == "double":
        i = rng.randrange(1, len(s) + 1)
        return s[:i] + rng.choice(("==", "=#", "-=", "//", "=-", "::")) + s[i:]
    i = rng.randrange(len(s) + 1)
    return s[:i] + rng.choice(("[]", "[+]", "[H+", "%", "%1", "$")) + s[i:]


_RING_TOK = re.compile(r"\[[^\]]*\]|([=#:\-]?)(%\d\d|\d)")


def ring_symbol_spellings(rng, s):
    """-> (spelling 1, spelling 2) of ``s`` that differ only in the end(s) of one ring closure on
    which its bond symbol is written; None if ``s`` has no ring closure fit for that (directional
    bonds are left alone).  If the closure carries no symbol, one is put there first (the
    molecule changes, both spellings change alike)."""
    open_, pairs = {}, []
    for m in _RING_TOK.finditer(s):
        if m.group(2) is None:
            continue
        if m.start() > 0 and s[m.start() - 1] in "/\\":
            open_.pop(m.group(2), None)
            continue
        lab = m.group(2)
        if lab in open_:
            pairs.append((open_.pop(lab), m))
        else:
            open_[lab] = m
    pairs = [(a, b) for a, b in pairs if not (a.group(1) and b.group(1) and a.group(1) != b.group(1))]
    if not pairs:
        return None
    a, b = rng.choice(pairs)
    sym = a.group(1) or b.group(1) or rng.choice(("=", "=", "-", ":", "#"))

    def spell(x, y):
        return (s[:a.start()] + (sym if x else "") + a.group(2) + s[a.end():b.start()]
                + (sym if y else "") + b.group(2) + s[b.end():])
    forms = [spell(1, 0), spell(0, 1), spell(1, 1)]
    rng.shuffle(forms)
    return forms[0], forms[1]


# ---------------------------------------------------------------------------
# histories
# ---------------------------------------------------------------------------

PROFILES = {
    # relative weights of op kinds; per run a random subset is switched off (swarm)
    "C11": dict(set_preset=6, set_table=8, set_bad=4, get=1, get_preset=1, get_alphabet=2, mutate=4,
                decode=30, encode=14, decode_fail=5, encode_fail=3, flood=2, observe=2, alpha_decode=0, util=2, repeat=8, deep=3, set_from=1),
    "C12": dict(set_preset=8, set_table=10, set_bad=14, get=10, get_preset=8, get_alphabet=8, mutate=16,
                decode=8, encode=4, decode_fail=3, encode_fail=1, flood=1, observe=6, alpha_decode=0, util=1, repeat=2, deep=0, set_from=6),
    "C07": dict(set_preset=6, set_table=14, set_bad=6, get=1, get_preset=1, get_alphabet=10, mutate=6,
                decode=4, encode=1, decode_fail=2, encode_fail=0, flood=1, observe=3, alpha_decode=14, util=1, repeat=1, deep=0, set_from=1),
    "C06": dict(set_preset=7, set_table=12, set_bad=4, get=1, get_preset=0, get_alphabet=1, mutate=2,
                decode=4, encode=40, decode_fail=1, encode_fail=4, flood=2, observe=1, alpha_decode=0, util=1, repeat=6, deep=1, set_from=1),
}
FAULT_KINDS = ("set_bad", "mutate", "decode_fail", "encode_fail", "flood")


def gen_history(rng, prop, tier="quick"):
    """-> (cfg, ops).  First the swarm configuration, then the op list."""
    prof = dict(PROFILES[prop])
    cfg = {"tier": tier}
    cfg["fault_free"] = rng.random() < 0.15
    cfg["length"] = rng.choice((3, 4, 5, 6, 6, 8, 10, 12, 12, 16, 20, 25, 30, 40, 60))
    if tier == "thorough" and rng.random() < 0.15:
        cfg["length"] = rng.choice((80, 120, 200))      # deeper bound of the thorough tier
    cfg["families"] = rng.choice((("preset",), ("preset", "tweak"), ("tweak", "small"),
                                  ("preset", "tweak", "small", "large"), ("charges", "tweak"),
                                  ("preset", "tweak", "small", "large", "charges"), ("zeros", "tweak"),
                                  ("zeros", "small", "preset")))
    cfg["passive"] = rng.random() < 0.5        # cheap get()/presets snapshot after every op
    cfg["start_default_call"] = rng.random() < 0.25
    # the interpreter's warnings configuration is part of the environment: 'error' turns any
    # warnings.warn() inside the library into an exception raised at that point (python -W error)
    cfg["warn_mode"] = rng.choice(("ignore", "ignore", "ignore", "error"))
    off = []
    for k in sorted(prof):
        if k in ("decode", "encode", "set_table", "set_preset"):
            continue
        if rng.random() < 0.2:
            prof[k] = 0
            off.append(k)
    if cfg["fault_free"]:
        for k in FAULT_KINDS:
            prof[k] = 0
    cfg["off"] = off
    cfg["long_inputs"] = rng.random() < 0.25
    kinds = [k for k in sorted(prof) if prof[k] > 0]
    weights = [prof[k] for k in kinds]

    ops = []
    st = _GenState(rng, cfg)
    if cfg["start_default_call"]:
        ops.append({"op": "set_preset", "name": rng.choice(("default", None))})
    while len(ops) < cfg["length"]:
        kind = rng.choices(kinds, weights)[0]
        for op in st.emit(kind, len(ops)):
            ops.append(op)
    ops.append({"op": "observe"})
    if prop == "C07" and st.last_kind != "alpha_decode":
        ops.append({"op": "alpha_decode", "seed": rng.getrandbits(30), "count": 12, "maxlen": 80})
    for i, op in enumerate(ops):
        op["id"] = i          # handles refer to ids, so a minimised history stays meaningful
    if prop == "C11" and not cfg["fault_free"]:
        ops = _add_cancellations(cfg, ops)
    _add_second_caller(cfg, ops)
    return cfg, ops


def _add_second_caller(cfg, ops):
    """One run in eight: the simulated caller has a second long-lived thread, and each call is
    issued from one of the two (sequentially - which thread calls is the only thing that varies).
    Drawn from a generator seeded by the history, like the cancellations."""
    trng = random.Random(zlib.crc32(("2nd:" + json.dumps(ops, sort_keys=True, default=repr)).encode()))
    cfg["two_callers"] = trng.random() < 0.125
    if cfg["two_callers"]:
        for op in ops:
            if op["op"] != "mutate" and trng.random() < 0.45:
                op["thr"] = 1


def _add_cancellations(cfg, ops):
    """Fault kind 'cancel' (a quarter of the C11 runs): a translation call is cancelled by the
    simulator at an arbitrary step inside the library (SimCancel raised at the n-th line event),
    and the same call follows at once, uncancelled and judged.  Drawn from a generator of its own,
    seeded by the history, so that the main stream and every other run stay as they were."""
    crng = random.Random(zlib.crc32(json.dumps(ops, sort_keys=True, default=repr).encode()))
    cfg["cancel"] = crng.random() < 0.25
    if not cfg["cancel"]:
        return ops
    out, nid = [], len(ops)
    for op in ops:
        if op["op"] in ("decode", "encode") and crng.random() < 0.35:
            c = dict(op, id=nid, why="cancel")
            c.pop("gt", None)
            c["cancel"] = int(math.exp(crng.uniform(0.0, math.log(6000.0))))
            c["exc"] = crng.choice(("SimCancel", "SimCancel", "MemoryError", "RecursionError"))
            nid += 1
            out.append(c)
        out.append(op)
    return out


class _GenState:
    """What the generator believes about the run so far (its guess of the
    current table, which handles exist); used only to aim, never to judge."""

    def __init__(self, rng, cfg):
        self.rng = rng
        self.cfg = cfg
        self.cur = dict(DEFAULT)          # guess of the current table
        self.prev = dict(DEFAULT)
        self.tables = [dict(DEFAULT)]
        self.handles = []                 # (op index, type)
        self.recent_inputs = []           # translation calls issued before the last table change
        self.last_kind = None
        self.pending_repeat = []          # inputs to re-issue after the next table change
        self.calls = {}                   # op index -> translation op that produced an attribution handle
        self.all_calls = []               # every translation op issued so far
        self._ctx = None

    # --- context for input generation
    def ctx(self):
        if self._ctx is None:
            pool = list(ORG_SYMS) * 2 + list(BRANCH[:4]) + list(RING[:4]) + list(stubs.INDEX_ALPHABET[:6])
            pool += atom_syms_of(self.cur)[:60]
            pool += list(NOVEL[:20]) + list(SPECIAL)
            focus = []
            keys = sorted(set(self.cur) | set(self.prev))
            for k in keys:
                if k == "?":
                    continue
                a, b = self.cur.get(k, self.cur["?"]), self.prev.get(k, self.prev["?"])
                if a != b:
                    el, ch = stubs.parse_key(k)
                    focus.append((el, ch, (a, b)))
            if self.cur["?"] != self.prev["?"]:
                for el in ("Se", "Si", "Fe", "Zn"):
                    if el not in self.cur and el not in self.prev:
                        focus.append((el, 0, (self.cur["?"], self.prev["?"])))
            if not focus:
                for k in self.rng.sample(sorted(self.cur), min(3, len(self.cur))):
                    if k != "?":
                        el, ch = stubs.parse_key(k)
                        focus.append((el, ch, (self.cur[k],)))
            self._ctx = dict(pool=pool, focus=focus, tables=self.tables[-3:])
        return self._ctx

    def table_changed(self, K):
        self.prev, self.cur = self.cur, dict(K)
        self.tables.append(dict(K))
        self._ctx = None
        self.pending_repeat = self.recent_inputs[-3:]
        self.recent_inputs = []

    # --- op emitters
    def emit(self, kind, idx):
        rng = self.rng
        self.last_kind = kind
        if kind == "set_preset":
            name = rng.choice(PRESET_NAMES)
            if rng.random() < 0.08:
                name = None      # set_semantic_constraints() with its default argument
            op = {"op": "set_preset", "name": name}
            if name is not None and rng.random() < 0.06:
                op["strsub"] = True      # the name as an instance of a str subclass
            yield op
            self.table_changed(PRESET_GUESS[name or "default"])
            yield from self.after_change(idx + 1)
        elif kind == "set_table":
            fams = [f for f in self.cfg["families"] if f != "preset"] or ["tweak"]
            fam = rng.choice(fams)
            base = self.cur if rng.random() < 0.7 else PRESET_GUESS[rng.choice(PRESET_NAMES)]
            if len(self.tables) > 2 and rng.random() < 0.15:
                K = dict(rng.choice(self.tables[:-1]))      # an earlier table again (A, B, ..., A)
            else:
                K = gen_table(rng, fam, base)
            self.handles.append((idx, "dict"))
            op = {"op": "set_table", "lit": lit(K)}
            u = rng.random()
            if u < 0.12:
                op["wrap"] = rng.choice(("defaultdict", "OrderedDict", "Counter", "missing", "strsub_keys", "intsub_vals", "strenum_keys"))
            yield op
            self.table_changed(K)
            if 0.12 <= u < 0.17:
                # the caller's dict calls back into the library (a decode of an input that tells the
                # old table from the new one) while set_semantic_constraints is iterating over it
                op["wrap"] = "reentrant"
                op["x"] = gen_selfies(rng, self.ctx(), "focus")
            yield from self.after_change(idx + 1)
        elif kind == "set_bad":
            if rng.random() < 0.1:
                # a sound table in something that is no dict (Mapping view, UserDict, pairs): the
                # documented argument is a str or a dict; rejected on the current tree
                K = gen_table(rng, rng.choice(("tweak", "small")), self.cur)
                self.handles.append((idx, "dict"))
                w = rng.choice(("mappingproxy", "userdict", "pairs_iter", "pairs_list", "index_obj_vals"))
                yield {"op": "set_table", "lit": lit(K), "why": "nondict", "wrap": w}
                n = 1
                if w == "index_obj_vals":
                    # the caller changes the value objects in place afterwards, and reads
                    yield {"op": "mutate", "h": idx, "how": "poke_vals", "arg": None}
                    yield {"op": "get"}
                    n = 3
                if rng.random() < 0.6:
                    yield from self.query(idx + n, prefer="focus")
                return
            if getattr(self, "bad_sent", None) and rng.random() < 0.25:
                bk, l = rng.choice(self.bad_sent)      # the caller retries a rejected update verbatim
            else:
                bk, l = gen_bad_set(rng, self.cur)
                self.bad_sent = getattr(self, "bad_sent", []) + [(bk, l)]
            self.handles.append((idx, "dict"))
            yield {"op": "set_table", "lit": l, "why": bk}
            if len(l) > 4000 and rng.random() < 0.6:
                # a key with thousands of digits was just offered: an input with as many digits next
                # (after going back to a preset: whatever the big key left behind is then not part of
                # the table the fresh interpreter is given)
                name = rng.choice(PRESET_NAMES)
                yield {"op": "set_preset", "name": name}
                self.table_changed(PRESET_GUESS[name])
                yield {"op": "decode", "x": "[C]" + HUGE_ISOTOPE + "[O]", "compatible": False, "attribute": False, "why": "fail"}
                return
            # a rejected update right before a discriminating reader
            if rng.random() < 0.6:
                yield from self.query(idx + 1, prefer="focus")
        elif kind == "get":
            self.handles.append((idx, "dict"))
            yield {"op": "get"}
        elif kind == "get_preset":
            self.handles.append((idx, "dict"))
            yield {"op": "get_preset", "name": rng.choice(PRESET_NAMES)}
        elif kind == "get_alphabet":
            self.handles.append((idx, "set"))
            yield {"op": "get_alphabet"}
        elif kind == "mutate":
            yield from self.mutate(idx)
        elif kind == "decode":
            yield from self.query(idx, only="decode")
        elif kind == "encode":
            yield from self.query(idx, only="encode", allow_extra=True)
        elif kind == "decode_fail" and rng.random() < 0.12:
            # a pre-v2 atom symbol where it cannot be missed: rejected as it stands, accepted in
            # compatible mode, and after that to be rejected again
            old = rng.choice(("[C@@Hexpl]", "[N+expl]", "[NHexpl]", "[=N+expl]", "[CH2expl]", "[O-expl]", "[=C@Hexpl]", "[Siexpl]"))
            x = rng.choice(("[C]", "[N]", "[C][=C]")) + old + rng.choice(("[O]", "[C][F]", ""))
            for compat, why in ((False, "fail"), (True, "compat_after_fail"), (False, "plain_after_compat")):
                op = {"op": "decode", "x": x, "compatible": compat, "attribute": False, "why": why}
                self.all_calls.append(dict(op))
                yield op
        elif kind == "decode_fail":
            x = gen_failing_selfies(rng, self.ctx())
            op = {"op": "decode", "x": x, "compatible": rng.random() < 0.15, "attribute": rng.random() < 0.3, "why": "fail"}
            self.all_calls.append(dict(op))
            if len(x) % 2:
                op["keep_exc"] = True       # the caller keeps the exception object (an error list)
            yield op
            if rng.random() < 0.5:   # a later success sharing the novel symbols
                yield {"op": "decode", "x": x.replace(self._bad_of(x), ""), "compatible": False, "attribute": False,
                       "why": "after_fail"}
            bad_sym = self._bad_of(x)
            if ("xpl" in bad_sym or "_" in bad_sym) and not op["compatible"] and len(x) % 3 != 0:
                # a pre-v2 symbol: rejected as it stands, accepted in compatible mode, and after that
                # to be rejected again
                yield {"op": "decode", "x": x, "compatible": True, "attribute": False, "why": "compat_after_fail"}
                yield {"op": "decode", "x": x, "compatible": False, "attribute": False, "why": "plain_after_compat"}
        elif kind == "encode_fail":
            bad = derive_failing_smiles(rng) if rng.random() < 0.5 else rng.choice(SMILES_BAD)
            yield {"op": "encode", "s": bad, "strict": rng.random() < 0.5,
                   "attribute": rng.random() < 0.3, "why": "fail", "keep_exc": len(bad) % 2 == 1}
        elif kind == "flood":
            yield {"op": "decode", "x": gen_flood(rng), "compatible": False, "attribute": False, "why": "flood"}
        elif kind == "observe":
            self.handles.append((idx, "obs"))
            yield {"op": "observe"}
        elif kind == "repeat":
            # an earlier translation call again - identical, or with one flag flipped
            # ("repeated calls"; state that one mode leaves behind for the other)
            if not self.all_calls:
                yield from self.query(idx)
            else:
                op = dict(rng.choice(self.all_calls[-12:]))
                op.pop("same_as", None)        # the relation holds next to the original, under one table
                u = rng.random()
                if u < 0.3:
                    pass
                elif u < 0.45:
                    # nearly the same call: one atom differs in isotope, hydrogen count, chirality mark,
                    # charge, atom class or bond prefix - whatever is memoised per symbol or per string
                    # must tell the two apart
                    f = "x" if op["op"] == "decode" else "s"
                    op[f] = near_duplicate(rng, op[f], selfies=(f == "x"))
                    op.pop("gt", None)
                elif op["op"] == "decode":
                    flag = rng.choice(("compatible", "compatible", "attribute"))
                    op[flag] = not op[flag]
                elif u < 0.6 and re.search(r"[A-Za-z\]]\d\d", op["s"]):
                    # the same molecule, spelt with two ring-closure digits at one atom swapped
                    # (neighbour order changes, nothing else): whatever is memoised per molecule must not care
                    ms = list(re.finditer(r"([A-Za-z\]])(\d)(\d)", op["s"]))
                    m = rng.choice(ms)
                    op["s"] = op["s"][:m.start()] + m.group(1) + m.group(3) + m.group(2) + op["s"][m.end():]
                else:
                    flag = rng.choice(("strict", "attribute"))
                    op[flag] = not op[flag]
                op["why"] = "repeat"
                if op.get("attribute"):
                    self.handles.append((idx, "attr"))
                    self.calls[idx] = dict(op)
                yield op
        elif kind == "set_from":
            # get -> (maybe a valid edit) -> set(the very same object) -> corrupt it afterwards -> read
            what = rng.choice(("get", "get", "get_preset"))
            op = {"op": what}
            if what == "get_preset":
                op["name"] = rng.choice(PRESET_NAMES)
            yield op
            n = 1
            if rng.random() < 0.5:
                yield {"op": "mutate", "h": idx, "how": "setcap", "arg": [rng.choice(("C", "N", "O", "S", "?")), rng.choice((1, 2, 3, 5))]}
                n += 1
            self.handles.append((idx + n, "dict"))
            yield {"op": "set_from", "h": idx}
            n += 1
            if rng.random() < 0.7:
                yield {"op": "mutate", "h": idx + n - 1, "how": rng.choice(("clear", "junk", "setcap", "pop_q", "bump_all")),
                       "arg": ["C", 0]}
                n += 1
            yield from self.query(idx + n, prefer="focus") if rng.random() < 0.5 else iter([{"op": "observe"}])
        elif kind == "deep":
            # nesting far beyond / well below the interpreter's recursion limit: the outcome (RecursionError
            # or not) must not depend on what ran before; unbalanced variants fail after the parser has
            # seen all the nesting
            n = rng.choice((1300, 1600))
            u = rng.random()
            if rng.random() < 0.3:
                # a molecule with 100 or more rings (ring closure numbers beyond 99 are reused)
                m = rng.randint(100, 130)
                unit = rng.choice(("[C][C][Ring1][Ring1]", "[N][C][C][=Ring1][Ring1]", "[C][C][C][Ring1][Ring2]"))
                x = "[C]" + unit * m
                if rng.random() < 0.6:
                    # an outer macrocycle: its ring (number 1) stays open while all the small ones open and close
                    x += "[Ring3][Ring2][P][P]"
                op = {"op": "decode", "x": x, "compatible": False, "attribute": False}
            elif u < 0.3:
                op = {"op": "decode", "x": "[C]" + "[Branch1][P][C]" * n, "compatible": False, "attribute": False}
            elif u < 0.5:
                op = {"op": "encode", "s": "C(" * n + "C" + ")C" * n, "strict": rng.random() < 0.5, "attribute": False}
            elif u < 0.8:
                op = {"op": "encode", "s": "C(" * rng.choice((600, 800, 1300)), "strict": rng.random() < 0.5, "attribute": False}
            else:
                m = rng.choice((150, 300))
                op = {"op": "encode", "s": "C(" * m + "C" + ")C" * m, "strict": False, "attribute": False}
            op["why"] = "deep"
            self.all_calls.append(dict(op))
            yield op
            if rng.random() < 0.6:       # deep inputs come in twos: what the first leaves behind, the second meets
                yield from self.emit("deep", idx + 1)
        elif kind == "util":
            # other public entry points in between (pure utilities; results recorded, not judged:
            # they are history, not subject)
            x = gen_selfies(rng, self.ctx(), rng.choice(("plain", "novel", "multi")))
            yield {"op": "util", "fn": rng.choice(("split", "len", "alphabet_from", "to_encoding", "flat_hot")), "x": x}
        elif kind == "alpha_decode":
            low = sorted("[%s]" % k for k, v in self.cur.items() if k != "?" and v <= 1)
            if self.cur.get("?", 1) <= 1:
                low += [x for x in ("[N]", "[O]", "[S]", "[P]", "[C]", "[=N]", "[=C]") if x[1:-1].lstrip("=") not in self.cur]
            yield {"op": "alpha_decode", "seed": rng.getrandbits(30), "low": low[:12],
                   "count": rng.choice((4, 8, 16, 30)),
                   "maxlen": rng.choice((5, 20, 60, 200) if self.cfg["tier"] == "quick" else (5, 20, 60, 200, 500, 1000))}

    def _bad_of(self, x):
        for b in INVALID:
            if b in x:
                return b
        return "\0"

    def after_change(self, idx):
        """Right after a table change: re-issue the inputs cached under the
        old table, then discriminating queries."""
        rng = self.rng
        n = 0
        if rng.random() < 0.12:
            # the caller keeps and corrupts whatever the set call returned (None today), then reads
            yield {"op": "mutate", "h": idx - 1, "ret": True, "how": rng.choice(("clear", "junk", "pop_q", "bump_all")), "arg": None}
            yield {"op": "observe"}
            n += 2
        for op in self.pending_repeat:
            if rng.random() < 0.7:
                yield dict(op, why="repeat_after_change")
                n += 1
        self.pending_repeat = []
        for _ in range(rng.choice((0, 1, 1, 2))):
            yield from self.query(idx + n, prefer="focus")
            n += 1

    def query(self, idx, only=None, prefer=None, allow_extra=False):
        rng = self.rng
        ctx = self.ctx()
        kind = only or rng.choice(("decode", "decode", "encode"))
        if kind == "decode":
            k = None
            if prefer == "focus" or rng.random() < 0.35:
                k = rng.choice(("focus", "focus", "hflip"))
            x = gen_selfies(rng, ctx, k)
            if self.cfg["long_inputs"] and rng.random() < 0.5:
                x = x + gen_selfies(rng, ctx, "branchy") * rng.randint(2, 5)
            compat = rng.random() < 0.12
            if compat and rng.random() < 0.7:
                x += "".join(rng.choice(COMPAT) for _ in range(rng.randint(1, 3)))
            op = {"op": "decode", "x": x, "compatible": compat, "attribute": rng.random() < 0.25}
            if op["attribute"]:
                self.handles.append((idx, "attr"))
                self.calls[idx] = dict(op)
        else:
            mol, s = gen_smiles(rng, ctx)
            op = {"op": "encode", "strict": rng.random() < 0.6, "attribute": rng.random() < 0.2}
            if mol is not None:
                op["s"] = mol.smiles(rng)
                op["gt"] = {"atoms": [[a["el"], a["ch"]] for a in mol.atoms], "val": mol.valences(),
                            "aro": any(a["aro"] for a in mol.atoms)}
            else:
                op["s"] = s
            if op["attribute"]:
                self.handles.append((idx, "attr"))
                self.calls[idx] = dict(op)
        self.recent_inputs.append(dict(op))
        self.all_calls.append(dict(op))
        yield op
        if allow_extra and op["op"] == "encode" and rng.random() < 0.25:
            # the same string with the bond symbol of one ring closure written on the opening digit,
            # on the closing digit, or on both (OpenSMILES: either or both ends) - three spellings
            # of one molecule, whatever that molecule is; no ground truth needed, only agreement
            pair = ring_symbol_spellings(rng, op["s"])
            if pair:
                a = {"op": "encode", "s": pair[0], "strict": True, "attribute": False, "why": "ringsym"}
                self.all_calls.append(dict(a))
                yield a
                b = dict(a, s=pair[1], same_as=idx + 1)
                self.all_calls.append(dict(b))
                yield b
                return
        if allow_extra and op["op"] == "encode" and rng.random() < 0.3:
            ms = list(re.finditer(r"([A-Za-z\]])(\d)(\d)", op["s"]))
            if ms:
                # straight away the same molecule with two ring-closure digits at one atom swapped
                m = rng.choice(ms)
                op2 = dict(op, why="respell")
                op2["s"] = op["s"][:m.start()] + m.group(1) + m.group(3) + m.group(2) + op["s"][m.end():]
                self.all_calls.append(dict(op2))
                yield op2

    def mutate(self, idx):
        rng = self.rng
        if not self.handles:
            # obtain something, corrupt it, read again
            what = rng.choice(("get", "get_preset", "get_alphabet"))
            op = {"op": what}
            if what == "get_preset":
                op["name"] = rng.choice(PRESET_NAMES)
            self.handles.append((idx, "set" if what == "get_alphabet" else "dict"))
            yield op
            idx += 1
        # bias to the most recent handle: corruption directly after obtaining
        h, typ = self.handles[-1] if rng.random() < 0.6 else rng.choice(self.handles)
        if typ == "dict":
            how = rng.choice(("clear", "pop_q", "setcap", "setcap", "junk", "delkey", "bump_all"))
            arg = None
            if how == "setcap":
                arg = [rng.choice(sorted(self.cur)), rng.choice((0, 1, 9, 2))]
        elif typ == "set":
            how = rng.choice(("clear", "add", "add", "discard", "discard_atoms"))
            arg = rng.choice(("[JUNK]", "[#F]", "[=Cl]", "[C]", "[Ring1]", "[=O]", "[Q]")) if how in ("add", "discard") else None
        elif typ == "obs":
            how, arg = rng.choice(("clear", "junk", "pop_q")), None
        else:
            how = rng.choice(("attr_clear", "attr_pop", "attr_edit", "attr_edit"))
            arg = None
        yield {"op": "mutate", "h": h, "how": how, "arg": arg}
        # the next reader directly after the corruption
        u = rng.random()
        if typ == "set" or (typ == "obs" and u < 0.3):
            self.handles.append((idx + 1, "set"))
            yield {"op": "get_alphabet"}
        elif typ in ("dict", "obs"):
            if u < 0.4:
                self.handles.append((idx + 1, "dict"))
                yield {"op": "get"}
            elif u < 0.6:
                self.handles.append((idx + 1, "dict"))
                yield {"op": "get_preset", "name": rng.choice(PRESET_NAMES)}
            elif u < 0.8:
                yield from self.query(idx + 1, prefer="focus")
            else:
                yield {"op": "observe"}
        else:
            # the same call again: a result object shared between calls would now show the corruption
            src = self.calls.get(h)
            if src is not None and rng.random() < 0.8:
                yield dict(src, why="repeat_after_mutate")
            else:
                yield from self.query(idx + 1)
