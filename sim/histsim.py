"""Engine A: seeded simulation of API histories with failed operations and
caller-side corruption.

    gen_history(seed)  ->  ops                 (pure function of the seed)
    execute(ops)       ->  log                 (in a child forked from a pristine zygote)
    verify(ops, log)   ->  violations, probes  (ConfigModel + FreshOracle + stubs)
"""
import hashlib
import json
import random
import warnings

from . import stubs
from .calls import do_call, norm, outcome, parse_arg
from .stubs import PRESET_NAMES

PROPS = ("C06", "C07", "C11", "C12")


def history_rng(base_seed, prop, i):
    return random.Random("%d:histsim:%s:%d" % (base_seed, prop, i))


# ---------------------------------------------------------------------------
# execution (runs inside the forked child; the only place the SUT is called)
# ---------------------------------------------------------------------------

class SimCancel(BaseException):
    """Injected by the simulator into a translation call at a chosen step: the caller's
    Ctrl-C, a signal-based time-out, a cancelled job.  Not an Exception, so that no
    ``except Exception`` inside the library can swallow it."""


_CANCEL_TOOL = 4


_WITH_LINES = {}


def _with_lines(code):
    """Source lines of ``with`` headers.  CPython attributes the implicit ``__exit__(None, None, None)``
    call of a normally ending block to the header line, *outside* the block's exception table: an
    exception injected at that line event would skip ``__exit__`` - a leak no Python code can prevent
    (the interpreter's own, long-known gap for asynchronous exceptions), so nothing is injected there;
    the injection moves on to the next line event."""
    ls = _WITH_LINES.get(code)
    if ls is None:
        import dis
        ls = frozenset(i.positions.lineno for i in dis.get_instructions(code)
                       if i.opname in ("BEFORE_WITH", "BEFORE_ASYNC_WITH") and i.positions and i.positions.lineno)
        _WITH_LINES[code] = ls
    return ls


_INJECTABLE = {"SimCancel": SimCancel, "MemoryError": MemoryError, "RecursionError": RecursionError}


def _cancellable(sf, at, fn, *a, exc="SimCancel", **kw):
    """Run fn(*a, **kw); at the ``at``-th line event inside the selfies package raise
    SimCancel at that point (sys.monitoring callbacks propagate their exceptions into the
    monitored code).  -> outcome tuple; ('err', 'SimCancel', 'func:line', None) if it fired."""
    import os
    import sys
    mon = sys.monitoring
    root = os.path.dirname(os.path.abspath(sf.__file__)) + os.sep
    st = {"n": 0, "fired": None}

    def on_line(code, line):
        if not code.co_filename.startswith(root):
            return mon.DISABLE
        st["n"] += 1
        if st["n"] >= at and st["fired"] is None and line not in _with_lines(code):
            st["fired"] = "%s:%d" % (code.co_name, line)
            # SimCancel (a BaseException: Ctrl-C, time-out, cancelled job) or one of the two
            # exceptions the interpreter itself can raise at any point of Python code: MemoryError
            # (a failing allocation) and RecursionError - both *are* Exceptions, so an
            # `except Exception` inside the library may catch them
            raise _INJECTABLE[exc]()

    mon.use_tool_id(_CANCEL_TOOL, "verif-cancel")
    try:
        mon.register_callback(_CANCEL_TOOL, mon.events.LINE, on_line)
        mon.set_events(_CANCEL_TOOL, mon.events.LINE)
        try:
            o = outcome(fn, *a, **kw)
        except SimCancel:
            o = ("err", "SimCancel", st["fired"], None)
        finally:
            mon.set_events(_CANCEL_TOOL, 0)
        if st["fired"] and o[1] != "SimCancel":
            # the injected MemoryError / RecursionError came back to the caller - or was swallowed
            # inside the library, in which case what the call returned is not to be relied on
            o = ("err", "SimCancel", st["fired"] + ":" + exc + (":swallowed" if o[0] == "ok" else ""), None)
    finally:
        mon.register_callback(_CANCEL_TOOL, mon.events.LINE, None)
        mon.free_tool_id(_CANCEL_TOOL)
        mon.restart_events()
    return o


def _passive(sf):
    g = outcome(sf.get_semantic_constraints)
    ps = tuple(outcome(sf.get_preset_constraints, n)[:2] for n in PRESET_NAMES)
    return (g[:2], ps)


def _mutate(obj, how, arg):
    """Caller-side corruption of an object the library returned or was given."""
    if isinstance(obj, dict):
        if how == "clear":
            obj.clear()
        elif how == "pop_q":
            obj.pop("?", None)
        elif how == "setcap":
            obj[arg[0]] = arg[1]
        elif how == "junk":
            obj["Zz"] = 99
            obj["C"] = 0
        elif how == "delkey":
            for k in sorted(obj, key=repr)[:2]:
                del obj[k]
        elif how == "bump_all":
            for k in list(obj):
                if isinstance(obj[k], int):
                    obj[k] = (obj[k] + 1) % 7
        elif how == "poke_vals":       # the value objects themselves are changed in place, the dict is not touched
            hit = False
            for v in obj.values():
                if isinstance(v, _IndexObj):
                    v.v = (v.v + 1) % 5
                    hit = True
            return hit
        else:
            return False
        return True
    if isinstance(obj, set):
        if how == "clear":
            obj.clear()
        elif how == "add":
            obj.add(arg)
        elif how == "discard":
            obj.discard(arg)
        elif how == "discard_atoms":
            for s in sorted(obj):
                if "Ring" not in s and "Branch" not in s:
                    obj.discard(s)
        else:
            return False
        return True
    if isinstance(obj, tuple) and len(obj) == 2 and isinstance(obj[1], list):
        maps = obj[1]
        if how == "attr_clear":
            for m in maps:
                if getattr(m, "attribution", None):
                    m.attribution.clear()
            maps.clear()
        elif how == "attr_pop":
            if maps:
                maps.pop(0)
        elif how == "attr_edit":
            for m in maps:
                m.index = -7
                m.token = "[JUNK]"
                for a in (getattr(m, "attribution", None) or []):
                    if not isinstance(a, str):
                        a.index = -9
                        a.token = "[JUNK]"
                if getattr(m, "attribution", None) is not None:
                    m.attribution.append("junk")
        else:
            return False
        return True
    if isinstance(obj, list):      # observe handle: every contained object
        done = False
        for o in obj:
            if isinstance(o, dict):
                done |= _mutate(o, how if how in ("clear", "junk", "pop_q") else "clear", None)
            elif isinstance(o, set):
                done |= _mutate(o, "clear", None)
        return done
    return False


class _MissingDict(dict):
    """A dict subclass whose lookups of absent keys insert them (like defaultdict)."""

    def __missing__(self, key):
        self[key] = 1
        return 1


def _wrap(arg, how, sf=None, x=None):
    """The caller passes its table as a dict *subclass*: still a dict, equal to the plain one."""
    if how is None or type(arg) is not dict:
        return arg
    import collections
    if how == "reentrant":
        # an object given to the library that calls back into the library while the update is
        # in progress (once): a translation call *inside* a configuration call
        class Reentrant(dict):
            fired = False

            def items(self):
                if not Reentrant.fired:
                    Reentrant.fired = True
                    outcome(sf.decoder, x)
                return dict.items(self)
        return Reentrant(arg)
    if how == "defaultdict":
        return collections.defaultdict(lambda: 2, arg)
    if how == "OrderedDict":
        return collections.OrderedDict(arg)
    if how == "Counter":
        return collections.Counter(arg)
    if how == "missing":
        return _MissingDict(arg)
    if how == "strsub_keys":       # a plain dict whose keys are instances of a str subclass
        return {(_StrSub(k) if isinstance(k, str) else k): v for k, v in arg.items()}
    if how == "strenum_keys":      # ... of a str subclass whose __str__ is not its content (class X(str, Enum) idiom)
        return {(_StrTagged(k) if isinstance(k, str) else k): v for k, v in arg.items()}
    if how == "intsub_vals":       # ... whose values are instances of an int subclass
        return {k: (_IntSub(v) if type(v) is int else v) for k, v in arg.items()}
    # not dicts at all (the documented argument is a str or a dict): a read-only view of the caller's
    # dict, a Mapping that is no dict, an iterator of pairs that can be consumed once
    if how == "mappingproxy":
        import types
        return types.MappingProxyType(arg)
    if how == "userdict":
        return collections.UserDict(arg)
    if how == "pairs_iter":
        return iter(list(arg.items()))
    if how == "pairs_list":
        return list(arg.items())
    if how == "index_obj_vals":    # a dict whose values are mutable integer-like objects (__index__, no int)
        return {k: (_IndexObj(v) if type(v) is int else v) for k, v in arg.items()}
    return arg


class _IndexObj:
    """An integer-like capacity that is no int and can be changed in place (a 0-d numpy array, a
    caller's counter object)."""

    def __init__(self, v):
        self.v = v

    def __index__(self):
        return self.v

    __int__ = __index__

    def __eq__(self, other):
        return self.v == (other.v if isinstance(other, _IndexObj) else other)

    def __hash__(self):
        return hash(self.v)

    def __lt__(self, other):
        return self.v < other

    def __le__(self, other):
        return self.v <= other

    def __gt__(self, other):
        return self.v > other

    def __ge__(self, other):
        return self.v >= other

    def __repr__(self):
        return "IndexObj(%d)" % self.v


class _StrSub(str):
    pass


class _IntSub(int):
    pass


class _StrTagged(str):
    def __str__(self):
        return "Element." + str.__str__(self)

    def __repr__(self):
        return "<Element %s>" % str.__str__(self)


NONDICT_WRAPS = ("mappingproxy", "userdict", "pairs_iter", "pairs_list", "index_obj_vals")    # acceptance not judged


_IDX = ("[C]", "[Ring1]", "[Ring2]", "[Branch1]", "[=Branch1]", "[#Branch1]", "[Branch2]", "[=Branch2]",
        "[#Branch2]", "[O]", "[N]", "[=N]", "[=C]", "[#C]", "[S]", "[P]")


def _constructive(rng, A, heavy, multi, L, low=()):
    """Grammar-aware string over the alphabet: ring symbols get index symbols computed so that the
    ring lands on a *chosen* earlier atom (the previous one, the root of the enclosing branch, an
    atom that already carries rings ...), branch symbols get the index of their actual body length,
    and chains continue from a branch root (so a root can receive rings after its branch closed).
    It assumes every atom symbol yields an atom, which holds while the chain is alive; where it does
    not, the string is simply another string over the alphabet."""
    Aset = set(A)
    idx = [s if s in Aset else None for s in _IDX]
    atoms = [rng.choice(heavy) for _ in range(rng.randint(1, 4))] + [rng.choice(multi or heavy)]
    lowA = [x for x in low if x in Aset]
    if lowA and rng.random() < 0.6:       # atoms of capacity 0 / 1 under the table in force (generator's hint)
        atoms += [rng.choice(lowA) for _ in range(rng.randint(1, 2))]
    rings = [r for r in ("[Ring1]", "[=Ring1]", "[#Ring1]") if r in Aset]
    branches = [b for b in ("[Branch1]", "[=Branch1]", "[#Branch1]") if b in Aset]
    pr = rng.choice((0.15, 0.3, 0.5))
    pb = rng.choice((0.1, 0.2, 0.35))
    state = {"n": 0}

    rings2 = [r for r in ("[Ring2]", "[=Ring2]") if r in Aset]
    branches2 = [b for b in ("[Branch2]", "[=Branch2]", "[#Branch2]") if b in Aset]
    maxdepth = rng.choice((1, 2, 3, 3, 6, 12, 25, 40))

    def ring_to(cur, target):
        q = cur - target - 1
        if q < 0:
            return []
        if q > 15 or (rings2 and rng.random() < 0.1):      # two index symbols: Q = 16 a + b
            a, b = divmod(q, 16)
            if not rings2 or a > 15 or idx[a] is None or idx[b] is None:
                return []
            return [rng.choice(rings2), idx[a], idx[b]]
        if not rings or idx[q] is None:
            return []
        return [rng.choice(rings), idx[q]]

    def body(budget, depth, roots):
        w = []
        cur = roots[-1] if roots else None
        while len(w) < budget:
            t = rng.random()
            if cur is not None and t < pr and state["n"] > 1:
                cands = list(range(max(0, cur - 8), cur)) + roots[-2:] + [max(0, cur - 1)] * 2
                if rng.random() < 0.15 and cur > 0:
                    cands = list(range(0, cur))          # any earlier atom, other fragments included
                w += ring_to(cur, rng.choice(cands))
            elif cur is not None and t < pr + pb and depth < maxdepth and branches and state["n"] < 1200:
                # (the atom cap keeps deep nesting from growing into a bushy tree of exponential size)
                inner = body(rng.randint(1, 6) if rng.random() < 0.85 else rng.randint(17, 40), depth + 1, roots + [cur])
                q = len(inner) - 1
                if inner and q <= 15 and idx[q] is not None:
                    w += [rng.choice(branches), idx[q]] + inner
                elif inner and branches2 and q <= 255 and idx[q // 16] is not None and idx[q % 16] is not None:
                    w += [rng.choice(branches2), idx[q // 16], idx[q % 16]] + inner     # two index symbols
                # after the branch the chain continues from the same atom
            else:
                w.append(rng.choice(atoms))
                cur = state["n"]
                state["n"] += 1
        return w

    out = "".join(body(L, 0, []))
    if rng.random() < 0.15:
        out += "." + "".join(body(rng.randint(1, 8), 0, []))      # ring targets may lie in the first fragment
    return out


def alpha_strings(A, seed, count, maxlen, low=()):
    """Seeded strings over the sorted alphabet, biased to stay alive."""
    rng = random.Random(seed)
    A = sorted(A)
    multi = [s for s in A if "Ring" not in s and "Branch" not in s]
    heavy = [s for s in multi if not any(h in s for h in ("[F]", "[Cl]", "[Br]", "[I]", "[H]"))] or multi or A
    out = []
    if not A:
        return out
    structural = [s for s in A if "Ring" in s or "Branch" in s]
    for n in range(count):
        L = rng.randint(1, maxlen)
        u = rng.random()
        v = rng.random()
        if v < 0.08:          # every symbol once, in sorted or reversed order
            out.append("".join(A if rng.random() < 0.5 else reversed(A)))
            continue
        if v < 0.2:           # a short motif repeated: deep regular structure
            motif = [rng.choice(A) for _ in range(rng.randint(1, 4))]
            if rng.random() < 0.12:
                L = rng.choice((1500, 2500, 4000))     # hundreds of sibling branches / rings in one frame
            out.append("".join(motif[i % len(motif)] for i in range(L)))
            continue
        if v < 0.28 and structural:   # structure symbols where atoms are expected
            head = "".join(rng.choice(structural) for _ in range(rng.randint(1, 6)))
            out.append(head + "".join(rng.choice(heavy * 2 + structural) for _ in range(L)))
            continue
        if v < 0.45:
            out.append(_constructive(rng, A, heavy, multi, L, low))
            continue
        if v < 0.6:
            # ring / branch dense over a small sub-alphabet: rings closing onto nearby, already
            # saturated atoms, rings inside branches back onto the branch root, several rings per
            # atom - where the free-valence bookkeeping of ring formation is decided
            Aset = set(A)
            atoms = [rng.choice(heavy) for _ in range(rng.randint(1, 4))]
            if rng.random() < 0.5 and multi:
                atoms += [rng.choice(multi)]
            rings = [r for r in ("[Ring1]", "[=Ring1]", "[Ring2]", "[=Ring2]", "[#Ring1]") if r in Aset] or structural
            branches = [b for b in ("[Branch1]", "[=Branch1]", "[#Branch1]", "[Branch2]") if b in Aset] or structural
            small = [i for i in ("[C]", "[Ring1]", "[Ring2]", "[Branch1]", "[=Branch1]", "[#Branch1]") if i in Aset] or A
            pr = rng.choice((0.15, 0.3, 0.45))
            pb = rng.choice((0.05, 0.15, 0.3))
            w = []
            if rng.random() < 0.3:
                # ... after a hundred or so small rings, so that the tail is written in the regime where
                # the SMILES writer has run out of fresh two-digit ring numbers and reuses released ones
                a = rng.choice([x for x in ("[C]", "[C]", "[Si]", "[S]", "[P]") if x in Aset] or atoms[:1])
                small_ring = rng.choice(([a, a, a, "[Ring1]", "[Ring1]"], [a, a, a, "[Ring1]", "[Ring1]"],
                                         [a, a, a, a, "[Ring1]", "[Ring2]"], [a, "[Branch1]", "[Branch1]", a, a, "[Ring1]", "[Ring1]"]))
                w += small_ring * rng.choice((97, 98, 99, 100, 104, 120))
                L += len(w)
            pc = rng.choice((0.0, 0.05, 0.15))
            roomy = [x for x in ("[S]", "[P]", "[Si]", "[C]", "[=S]", "[=P]") if x in Aset] or atoms
            while len(w) < L:
                t = rng.random()
                if t > 1.0 - pc and rings and "[Branch1]" in Aset:
                    # an atom whose branch closes a ring back onto it, and which then closes a ring of
                    # its own: two ring digits on one atom, one opening and one closing, any bond orders
                    y, x = rng.choice(roomy), rng.choice(atoms)
                    w += [y, "[Branch1]", "[Branch1]", x, x, rng.choice(rings), "[Ring1]", rng.choice(rings), rng.choice(small)]
                elif t < pr and rings:
                    w.append(rng.choice(rings))
                    w.append(rng.choice(small))
                elif t < pr + pb and branches:
                    w.append(rng.choice(branches))
                    w.append(rng.choice(small))
                else:
                    w.append(rng.choice(atoms))
            out.append("".join(w))
            continue
        if u < 0.3:
            pool = A
        elif u < 0.7:
            pool = heavy * 3 + A
        else:
            pool = heavy * 8 + A
        s = "".join(rng.choice(pool) for _ in range(L))
        if rng.random() < 0.15:
            s = s + "." + "".join(rng.choice(pool) for _ in range(rng.randint(1, 10)))
        out.append(s)
    return out


def _util(sf, op):
    x = op["x"]
    fn = op["fn"]
    if fn == "split":
        return outcome(lambda: list(sf.split_selfies(x)))
    if fn == "len":
        return outcome(sf.len_selfies, x)
    if fn == "alphabet_from":
        return outcome(sf.get_alphabet_from_selfies, [x, "[C][N]", x])

    def enc():
        alph = sorted(sf.get_alphabet_from_selfies([x])) + ["[nop]", "."]
        stoi = {s: i for i, s in enumerate(alph)}
        n = sf.len_selfies(x) + 2
        if fn == "to_encoding":
            lab, hot = sf.selfies_to_encoding(x, stoi, pad_to_len=n, enc_type="both")
            return sf.encoding_to_selfies(lab, {i: s for s, i in stoi.items()}, enc_type="label"), len(hot)
        flat = sf.batch_selfies_to_flat_hot([x], stoi, pad_to_len=n)
        return sf.batch_flat_hot_to_selfies(flat, {i: s for s, i in stoi.items()})
    return outcome(enc)


class _OpTimeout(BaseException):
    pass


def _on_alarm(signum, frame):
    raise _OpTimeout()


OP_TIMEOUT_S = 25      # a call that does not return is recorded as ('err', 'Hang') - data for the oracle


class _SecondCaller:
    """A long-lived second thread of the simulated caller.  Ops marked ``thr`` are issued from it,
    strictly one after the other with those of the main thread (a hand-over per op, nothing
    concurrent): the history stays sequential, only the calling thread varies."""

    def __init__(self):
        import queue
        import threading
        self.q, self.r = queue.SimpleQueue(), queue.SimpleQueue()
        self.t = threading.Thread(target=self._loop, daemon=True)
        self.t.start()

    def _loop(self):
        while True:
            f = self.q.get()
            if f is None:
                return
            try:
                self.r.put(("ok", f()))
            except BaseException as e:
                self.r.put(("exc", e))

    def call(self, f):
        self.q.put(f)
        tag, v = self.r.get()
        if tag == "exc":
            raise v
        return v


def execute(sf, ops, passive, warn_mode="ignore"):
    import signal
    warnings.simplefilter(warn_mode)
    signal.signal(signal.SIGALRM, _on_alarm)
    H = {}
    log = []
    second = None
    for pos, op in enumerate(ops):
        try:
            signal.alarm(OP_TIMEOUT_S)
            if op.get("thr"):
                if second is None:
                    second = _SecondCaller()
                try:
                    rec = second.call(lambda: _execute_one(sf, op, pos, H, passive))
                except _OpTimeout:
                    second = None      # that thread is stuck in the call: the next op gets a new one
                    raise
            else:
                rec = _execute_one(sf, op, pos, H, passive)
        except _OpTimeout:
            rec = {"r": ("err", "Hang", "call did not return within %d s" % OP_TIMEOUT_S)}
            if passive:
                rec["p"] = (("err", "Hang"), ())
        finally:
            signal.alarm(0)
        log.append(rec)
    return log


def _execute_one(sf, op, pos, H, passive):
    if True:
        idx = op.get("id", pos)
        k = op["op"]
        rec = {}
        if k == "set_preset":
            if op["name"] is None:
                o = outcome(sf.set_semantic_constraints)
            elif op.get("strsub"):
                o = outcome(sf.set_semantic_constraints, _StrSub(op["name"]))
            else:
                o = outcome(sf.set_semantic_constraints, op["name"])
            H[("ret", idx)] = o[3]
            rec["r"] = o[:3]
        elif k == "set_table":
            base = parse_arg(op["lit"])
            arg = _wrap(base, op.get("wrap"), sf, op.get("x"))
            H[idx] = base if op.get("wrap") == "mappingproxy" else arg     # what the caller can still mutate
            o = outcome(sf.set_semantic_constraints, arg)
            H[("ret", idx)] = o[3]         # whatever the call returns is an object the caller may keep
            rec["r"] = o[:3]
        elif k == "set_from":
            # the caller passes an object it got from the library earlier (get / get_preset), as is
            obj = H.get(op["h"])
            if isinstance(obj, dict):
                rec["arg"] = norm(obj)
                o = outcome(sf.set_semantic_constraints, obj)
                H[idx] = obj
                H[("ret", idx)] = o[3]
                rec["r"] = o[:3]
            else:
                rec["r"] = ("skip", None, None)
        elif k == "get":
            o = outcome(sf.get_semantic_constraints)
            H[idx] = o[3]
            rec["r"] = o[:3]
        elif k == "get_preset":
            o = outcome(sf.get_preset_constraints, op["name"])
            H[idx] = o[3]
            rec["r"] = o[:3]
        elif k == "get_alphabet":
            o = outcome(sf.get_semantic_robust_alphabet)
            H[idx] = o[3]
            rec["r"] = o[:3]
        elif k == "decode":
            if op.get("cancel"):
                o = _cancellable(sf, op["cancel"], sf.decoder, op["x"], exc=op.get("exc", "SimCancel"),
                                 compatible=op["compatible"], attribute=op["attribute"])
            else:
                o = outcome(sf.decoder, op["x"], compatible=op["compatible"], attribute=op["attribute"])
            H[idx] = o[3]
            rec["r"] = o[:3]
        elif k == "encode":
            if op.get("cancel"):
                o = _cancellable(sf, op["cancel"], sf.encoder, op["s"], exc=op.get("exc", "SimCancel"),
                                 strict=op["strict"], attribute=op["attribute"])
            else:
                o = outcome(sf.encoder, op["s"], strict=op["strict"], attribute=op["attribute"])
            H[idx] = o[3]
            rec["r"] = o[:3]
        elif k == "mutate":
            obj = H.get(("ret", op["h"]) if op.get("ret") else op["h"])
            rec["r"] = ("ok", _mutate(obj, op["how"], op["arg"]) if obj is not None else False, None)
        elif k == "util":
            rec["r"] = _util(sf, op)[:3]
        elif k == "observe":
            g = outcome(sf.get_semantic_constraints)
            a = outcome(sf.get_semantic_robust_alphabet)
            ps = [outcome(sf.get_preset_constraints, n) for n in PRESET_NAMES]
            H[idx] = [g[3], a[3]] + [p[3] for p in ps]
            rec["r"] = ("ok", (g[:2], a[:2], tuple(p[:2] for p in ps)), None)
        elif k == "alpha_decode":
            a = outcome(sf.get_semantic_robust_alphabet)
            H[idx] = a[3]
            if a[0] != "ok" or not isinstance(a[3], (set, frozenset)):
                rec["r"] = ("ok", (a[:2], (), ()), None)
            else:
                A = sorted(a[3], key=repr)
                singles = tuple((s, outcome(sf.decoder, s)[:2]) for s in A if isinstance(s, str))
                strs = alpha_strings([s for s in A if isinstance(s, str)], op["seed"], op["count"], op["maxlen"],
                                     op.get("low", ()))
                outs = tuple((s, outcome(sf.decoder, s)[:2]) for s in strs)
                rec["r"] = ("ok", (a[:2], singles, outs), None)
        else:
            raise ValueError("unknown op %r" % (k,))
        if not op.get("keep_exc"):
            for key in (idx, ("ret", idx)):
                if isinstance(H.get(key), BaseException):
                    H[key] = None      # the caller drops the exception at once (and with it its traceback)
        if passive:
            rec["p"] = _passive(sf)
        return rec


def pristine_presets(sf):
    """Runs in a pristine child: the import-time presets and default table."""
    return {n: sf.get_preset_constraints(n) for n in PRESET_NAMES}, sf.get_semantic_constraints()


# ---------------------------------------------------------------------------
# verification (parent side; never calls the SUT)
# ---------------------------------------------------------------------------

class Violation:
    def __init__(self, oracle, idx, detail):
        self.oracle = oracle
        self.idx = idx
        self.detail = detail

    def cls(self):
        return self.oracle

    def to_json(self):
        return {"oracle": self.oracle, "op_index": self.idx, "detail": self.detail}


# which oracles speak for which property, and which op kinds the minimised
# history must still contain for the violation to belong to that property
# (None: none required).  See DESIGN.md section 3.4.
ORACLE_PROPS = {
    "get_eq_model":            {"C12": None},
    "invalid_update_rejected": {"C12": None},
    "set_acceptance_eq_oracle": {"C12": None},
    "preset_eq_pristine":      {"C12": None},
    "alphabet_eq_oracle":      {"C07": None, "C12": "fault"},
    "alphabet_lower_bound":    {"C07": None},
    "alphabet_is_set_of_str":  {"C07": None},
    "alphabet_symbol_decodes": {"C07": None},
    "alphabet_string_decodes": {"C07": None},
    "alphabet_string_valence": {"C07": None},
    "decode_eq_oracle":        {"C11": None, "C12": "fault"},
    "encode_eq_oracle":        {"C11": None, "C12": "fault", "C06": "set"},
    "strict_eq_oracle":        {"C06": None, "C12": "fault"},
    "strict_iff_molgen":       {"C06": None},
    "nonstrict_raises_molgen": {"C06": None},
    "strict_eq_nonstrict":     {"C06": None},
    "nonstrict_table_indep":   {"C06": None},
    "respelt_eq_original":     {"C06": None},
    "oracles_agree":           {"C11": None},
    "history_eq_cold_interpreter": {"C11": None},
}


def is_fault_op(op):
    return op["op"] == "mutate" or (op["op"] == "set_table" and "why" in op)


def attributable(prop, viol, ops, log):
    """Does this violation (on this, already minimised, history) speak against
    ``prop``?"""
    need = ORACLE_PROPS.get(viol.oracle, {}).get(prop, "no")
    if need == "no":
        return False
    if need is None:
        return True
    upto = list(zip(ops[:viol.idx + 1], log[:viol.idx + 1]))
    if need == "fault":
        # a rejected update or a caller-side mutation must be part of it
        for op, rec in upto:
            if op["op"] == "mutate" and rec["r"][1]:
                return True
            if op["op"] in ("set_table", "set_preset", "set_from") and rec["r"][0] == "err":
                return True
        return False
    if need == "set":
        return any(op["op"] in ("set_table", "set_preset", "set_from") and rec["r"][0] == "ok" for op, rec in upto)
    return False


class Verifier:
    def __init__(self, oracle, oracle2, presets, import_table):
        self.oracle = oracle
        self.oracle2 = oracle2      # second hash seed (may be None)
        self.presets = presets
        self.import_table = import_table

    def verify(self, ops, log, probes=None, second=True, warn_mode="ignore"):
        """-> list of Violation, in history order."""
        P = probes if probes is not None else {}
        self._warn_mode = warn_mode

        def probe(name, n=1):
            P[name] = P.get(name, 0) + n

        out = []
        model = stubs.ConfigModel(self.presets)
        if self.import_table != self.presets["default"]:
            out.append(Violation("preset_eq_pristine", -1, {"why": "import-time table differs from default preset"}))
        prev_src = None             # table before the last successful change
        since_change = 0
        nonstrict_seen = {}         # s -> first result, across tables of the run
        last_fault = None
        from_import = True
        by_id = {op.get("id", i): op["op"] for i, op in enumerate(ops)}
        res_by_id = {op.get("id", i): rec["r"] for i, (op, rec) in enumerate(zip(ops, log))}

        def ask(K, call):
            a = self.oracle.query(K, call, warn_mode)
            if self.oracle2 is not None and second:
                b = self.oracle2.query(K, call, warn_mode)
                if a[:2] != b[:2]:
                    out.append(Violation("oracles_agree", idx, {"call": list(call), "a": a[:2], "b": b[:2]}))
            return a

        changes_at = {}
        for idx, (op, rec) in enumerate(zip(ops, log)):
            k = op["op"]
            r = rec["r"]
            changes_at[op.get("id", idx)] = model.changes if model.known else -1 - idx
            if op.get("thr"):
                probe("calls_from_the_callers_second_thread")
            if op.get("keep_exc") and r[0] == "err":
                probe("fault_caller_keeps_the_exception_object")
            if k == "set_from":
                if r[0] == "skip":
                    continue
                arg = _denorm(rec["arg"])
                litr = repr(arg)
                fresh = ask(("lit", litr), ("get",))
                probe("checked:set_acceptance_eq_oracle")
                probe("set_from_returned_object")
                if (r[0] == "ok") != (fresh[0] == "ok"):
                    out.append(Violation("set_acceptance_eq_oracle", idx, {"arg": litr[:300], "here": r[:2], "fresh_interpreter": fresh[:2]}))
                if r[0] == "ok":
                    prev_src = model.src
                    model.set_ok(arg, litr)
                    since_change = 0
                    from_import = False
                else:
                    last_fault = idx
                if "p" in rec:
                    g, ps = rec["p"]
                    if model.known and g != ("ok", norm(model.table)):
                        out.append(Violation("get_eq_model", idx, {"after": k, "got": g, "want": norm(model.table)}))
                continue
            if k in ("set_preset", "set_table"):
                fault = k == "set_table" and "why" in op
                # whether an update is accepted must not depend on what happened before: ask a fresh interpreter
                nondict = k == "set_table" and op.get("wrap") in NONDICT_WRAPS
                if nondict:
                    # the oracle interpreter is given plain literals; whether a Mapping that is no dict
                    # is accepted is not for C12 to say - only what happens afterwards is
                    fresh = r
                    probe("fault_caller_passes_non_dict:" + op["wrap"] + (":accepted" if r[0] == "ok" else ":rejected"))
                else:
                    fresh = ask(("preset", op["name"] or "default") if k == "set_preset" else ("lit", op["lit"]), ("get",))
                    probe("checked:set_acceptance_eq_oracle")
                if (r[0] == "ok") != (fresh[0] == "ok"):
                    out.append(Violation("set_acceptance_eq_oracle", idx, {
                        "arg": (op.get("lit") or repr(op.get("name")))[:300], "here": r[:2], "fresh_interpreter": fresh[:2]}))
                if op.get("wrap"):
                    probe("fault_caller_dict_subclass:" + op["wrap"])
                if r[0] == "ok":
                    arg = (op["name"] or "default") if k == "set_preset" else parse_arg(op["lit"])
                    if from_import and k == "set_preset":
                        probe("preset_from_import_state")
                    prev_src = model.src
                    model.set_ok(arg, op.get("lit"))
                    since_change = 0
                    from_import = False
                    if fault:
                        probe("offspec_table_accepted:" + op["why"])
                        if op["why"] in ("no_q", "bad_key", "bad_value", "bad_preset", "bad_arg"):
                            # the statement lists these classes as rejected updates
                            out.append(Violation("invalid_update_rejected", idx, {"kind": op["why"], "arg": op["lit"][:300]}))
                else:
                    probe("fault_rejected_update:" + (op.get("why") or "preset") + ":" + str(r[1]))
                    if fault and _valid_prefix(op["lit"]):
                        probe("rejected_after_valid_prefix")
                    last_fault = idx
            elif k == "get":
                probe("checked:get_eq_model")
                if model.known and r[:2] != ("ok", norm(model.table)):
                    out.append(Violation("get_eq_model", idx, {"got": r[:2], "want": norm(model.table)}))
                if last_fault is not None:
                    probe("read_after_fault:get")
            elif k == "get_preset":
                probe("checked:preset_eq_pristine")
                if r[:2] != ("ok", norm(self.presets[op["name"]])):
                    out.append(Violation("preset_eq_pristine", idx, {"name": op["name"], "got": r[:2]}))
                if last_fault is not None:
                    probe("read_after_fault:get_preset")
            elif k == "get_alphabet":
                self._alphabet(out, idx, r, model, ask, probe)
                if last_fault is not None:
                    probe("read_after_fault:get_alphabet")
            elif k == "observe":
                g, a, ps = r[1]
                if model.known and g != ("ok", norm(model.table)):
                    out.append(Violation("get_eq_model", idx, {"got": g, "want": norm(model.table)}))
                for n, p in zip(PRESET_NAMES, ps):
                    if p != ("ok", norm(self.presets[n])):
                        out.append(Violation("preset_eq_pristine", idx, {"name": n, "got": p}))
                self._alphabet(out, idx, a, model, ask, probe)
            elif k == "alpha_decode" and r[0] == "err":
                # the op as a whole did not return (per-op alarm).  String generation and decoding share
                # that op, so this cannot be told apart from a slow generator: a harness error (exit 2,
                # never a pass), not a violation
                raise RuntimeError("alpha_decode op did not return within its time limit: %r" % (r[:3],))
            elif k == "alpha_decode":
                a, singles, outs = r[1]
                self._alphabet(out, idx, a, model, ask, probe)
                wf = model.known and stubs.well_formed(model.table)
                for s, o in singles:
                    if o[0] != "ok":
                        out.append(Violation("alphabet_symbol_decodes", idx, {"symbol": s, "got": o}))
                        break
                for s, o in outs:
                    probe("alphabet_strings")
                    if o[0] != "ok":
                        out.append(Violation("alphabet_string_decodes", idx, {"string": s, "got": o}))
                        break
                    if wf:
                        try:
                            bad = stubs.valence_violations(model.table, o[1])
                        except stubs.ReadError as e:
                            bad = [("unreadable", str(e))]
                        probe("alphabet_strings_valence_checked")
                        if bad:
                            out.append(Violation("alphabet_string_valence", idx,
                                                 {"string": s, "smiles": o[1], "atoms": bad[:3]}))
                            break
            elif k == "mutate":
                if r[1]:
                    probe("fault_mutate:" + by_id.get(op["h"], "?") + ":" + op["how"])
                    last_fault = idx
            elif k in ("decode", "encode") and r[:2] == ("err", "SimCancel"):
                # the call was cancelled by the simulator at an arbitrary step: nothing is
                # demanded of this call, everything of the calls that follow it
                probe("fault_cancelled_call:" + k)
                probe("fault_injected_exception:" + op.get("exc", "SimCancel") + (":swallowed" if str(r[2]).endswith(":swallowed") else ""))
                last_fault = idx
                since_change += 1
            elif k == "decode":
                if op.get("cancel"):
                    probe("cancel_not_reached")
                if model.known:
                    call = ("decode", op["x"], op["compatible"], op["attribute"])
                    want = ask(model.src, call)
                    probe("checked:decode_eq_oracle")
                    if r[:2] != want[:2]:
                        out.append(Violation("decode_eq_oracle", idx, {"got": r[:2], "want": want[:2], "msg": (r[2], want[2])}))
                    self._discriminating(probe, prev_src, model, call, want, since_change)
                    if r[0] == "err":
                        probe("fault_failing_decode:" + str(r[1]))
                    if op.get("why") == "flood":
                        probe("fault_cache_flood")
                    if last_fault is not None:
                        probe("read_after_fault:decode")
                since_change += 1
            elif k == "encode":
                call = ("encode", op["s"], op["strict"], op["attribute"])
                if r[0] == "err":
                    probe("fault_failing_encode:" + str(r[1]))
                if "same_as" in op and op["same_as"] in res_by_id and changes_at.get(op["same_as"]) == model.changes:
                    # two spellings of one molecule (bond symbol on either or both ends of a ring closure)
                    first = res_by_id[op["same_as"]]
                    probe("respelt_ring_symbol" + (":accepted" if r[0] == "ok" else ":rejected"))
                    if tuple(r[:2]) != tuple(first[:2]):
                        out.append(Violation("respelt_eq_original", idx, {"first": first[:2], "second": r[:2], "s": op["s"]}))
                if not op["strict"]:
                    want = ask(None, call)
                    probe("checked:encode_eq_oracle")
                    if r[:2] != want[:2]:
                        out.append(Violation("encode_eq_oracle", idx, {"got": r[:2], "want": want[:2]}))
                    if model.known and model.src is not None:
                        w2 = ask(model.src, call)
                        if w2[:2] != want[:2]:
                            out.append(Violation("nonstrict_table_indep", idx, {"under_table": w2[:2], "under_default": want[:2]}))
                    if "gt" in op and r[0] != "ok":
                        out.append(Violation("nonstrict_raises_molgen", idx, {"got": r[:2], "s": op["s"]}))
                elif model.known:
                    want = ask(model.src, call)
                    probe("checked:strict_eq_oracle")
                    if r[:2] != want[:2]:
                        out.append(Violation("strict_eq_oracle", idx, {"got": r[:2], "want": want[:2], "msg": (r[2], want[2])}))
                    self._discriminating(probe, prev_src, model, call, want, since_change)
                    if "gt" in op and stubs.well_formed(model.table):
                        gt = op["gt"]
                        margins = [v - stubs.capacity(model.table, el, ch)
                                   for (el, ch), v in zip(gt["atoms"], gt["val"])]
                        expect_reject = max(margins) > 0
                        probe("strict_molgen")
                        if max(margins) == 0:
                            probe("strict_at_capacity")
                        elif max(margins) == 1:
                            probe("strict_one_over")
                        elif max(margins) == -1:
                            probe("strict_one_below")
                        if gt["aro"]:
                            probe("strict_aromatic")
                        got_reject = r[0] == "err" and r[1] == "EncoderError"
                        if r[0] == "err" and r[1] != "EncoderError":
                            out.append(Violation("strict_iff_molgen", idx, {"got": r[:2], "s": op["s"]}))
                        elif got_reject != expect_reject:
                            out.append(Violation("strict_iff_molgen", idx,
                                                 {"s": op["s"], "expected_reject": expect_reject, "got": r[:2],
                                                  "margins": margins, "msg": r[2]}))
                    if r[0] == "ok":
                        ns = ask(None, ("encode", op["s"], False, op["attribute"]))
                        if ns[:2] != r[:2]:
                            out.append(Violation("strict_eq_nonstrict", idx, {"strict": r[:2], "nonstrict": ns[:2]}))
                if last_fault is not None:
                    probe("read_after_fault:encode")
                since_change += 1
            # cheap snapshot after every op (swarm knob)
            if "p" in rec:
                g, ps = rec["p"]
                if model.known and g != ("ok", norm(model.table)):
                    out.append(Violation("get_eq_model", idx, {"after": k, "got": g, "want": norm(model.table)}))
                for n, p in zip(PRESET_NAMES, ps):
                    if p != ("ok", norm(self.presets[n])):
                        out.append(Violation("preset_eq_pristine", idx, {"after": k, "name": n, "got": p}))
        out.sort(key=lambda v: v.idx)
        return out

    def _alphabet(self, out, idx, r, model, ask, probe):
        if not model.known:
            return
        want = ask(model.src, ("alphabet",))
        if r[:2] != want[:2]:
            out.append(Violation("alphabet_eq_oracle", idx, {"got_minus_want": _setdiff(r, want), "want_minus_got": _setdiff(want, r)}))
        if r[0] != "ok" or not (isinstance(r[1], tuple) and r[1][:1] == ("set",)
                                and all(isinstance(s, str) for s in r[1][1:])):
            out.append(Violation("alphabet_is_set_of_str", idx, {"got": repr(r[:2])[:200]}))
            return
        probe("alphabet_reads")
        if stubs.well_formed(model.table):
            missing = sorted(stubs.alphabet_lower_bound(model.table) - set(r[1][1:]))
            if missing:
                out.append(Violation("alphabet_lower_bound", idx, {"missing": missing[:10]}))

    def _discriminating(self, probe, prev_src, model, call, want, since_change):
        """Reach probe: would a stale answer from the previous table have been
        visible on this query?  (Costs one oracle query; only right after a change.)"""
        if model.changes == 0 or since_change > 3 or prev_src == model.src:
            return
        old = self.oracle.query(prev_src, call, self._warn_mode)
        if old[:2] != want[:2]:
            probe("discriminating_query")
            if (old[0] == "err") != (want[0] == "err"):
                probe("flip_accept_reject")


def _denorm(n):
    """('dict', (k, v), ...) -> dict (plain keys and values only)."""
    if isinstance(n, tuple) and n[:1] == ("dict",):
        return {k: v for k, v in n[1:]}
    return n


def _setdiff(a, b):
    try:
        return sorted(set(a[1][1:]) - set(b[1][1:]), key=repr)[:8]
    except Exception:
        return [repr(a[:2])[:120]]


def _valid_prefix(lit):
    """Was there at least one valid entry before the offending one?  (reach probe only)"""
    try:
        arg = parse_arg(lit)
    except Exception:
        return False
    if not isinstance(arg, dict):
        return False
    n = 0
    for k, v in arg.items():
        ok = (k == "?" or stubs.parse_key(k) is not None) and type(v) is int and v >= 0
        if not ok:
            return n > 0
        n += 1
    return n > 0 and "?" not in arg


def digest(ops, log):
    h = hashlib.sha256()
    h.update(json.dumps(ops, sort_keys=True).encode())
    h.update(repr([rec["r"][:2] for rec in log]).encode())
    h.update(repr([rec.get("p") for rec in log]).encode())
    return h.hexdigest()
