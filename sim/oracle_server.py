"""Oracle interpreter.  Imports selfies from $VERIF_REPO, calls nothing of it,
and answers each query in a child forked from that pristine state:

    set_semantic_constraints(K)   (or nothing, for import state)
    the one call

Run as ``python -m sim.oracle_server`` (server) or ``--once`` (cold, one
query on stdin, no fork)."""
import pickle
import sys
import warnings

from . import env
from .calls import apply_table, do_call


def answer(sf, K, call, warn_mode="ignore"):
    warnings.simplefilter(warn_mode)
    try:
        apply_table(sf, K)
    except Exception as e:   # acceptance must not depend on history either
        return ("err", "ORACLE-SET-REJECTED:" + type(e).__name__, str(e)[:200])
    return do_call(sf, call)


def _history(sf, raw):
    from . import histsim
    ops, passive, warn_mode = pickle.loads(raw)
    return histsim.execute(sf, ops, passive, warn_mode)


def _presets(sf, raw):
    from . import histsim
    return histsim.pristine_presets(sf)


def sim_loop(sf):
    """Simulated-caller server: fixed-size header, raw payload in, raw result out; nothing is
    unpickled in this process (see procs.fork_raw)."""
    import struct
    from . import histsim          # noqa: F401  (imported before the first fork, like everything else)
    from .procs import _send, fork_raw, HarnessTimeout
    inp, out = sys.stdin.buffer, sys.stdout.buffer
    _send(out, ("hello", sf.__file__))
    while True:
        kind = inp.read(1)
        if not kind:
            return
        n, timeout = struct.unpack("<Id", inp.read(12))
        raw = inp.read(n)
        try:
            data = fork_raw(_history if kind == b"H" else _presets, sf, raw, timeout=timeout)
        except HarnessTimeout:
            data = b""
        out.write(struct.pack("<I", len(data)))
        out.write(data)
        out.flush()


def sched_once():
    """One schedule in this freshly started interpreter (no zygote, no fork): lock seam, import,
    instrumentation, run - the same steps in the same order on every start, so that even effects
    that depend on object addresses or allocation order repeat."""
    import json
    import struct
    from . import sched
    sched.install_lock_seam()
    sf = env.import_sut()
    sched.instrument()
    (n,) = struct.unpack("<Q", sys.stdin.buffer.read(8))
    spec = pickle.loads(sys.stdin.buffer.read(n))
    rec = sched.run(sf, spec)
    sys.stdout.buffer.write(pickle.dumps(rec, protocol=4))
    sys.stdout.buffer.flush()


def main():
    if "--sched" in sys.argv:
        return sched_once()
    sf = env.import_sut()
    if "--once" in sys.argv:
        K, call = pickle.loads(sys.stdin.buffer.read())
        sys.stdout.buffer.write(pickle.dumps(answer(sf, K, call), protocol=4))
        return
    if "--history" in sys.argv:
        import struct
        from . import histsim
        # length-prefixed, read in one call: reading until EOF would allocate a number of chunks that
        # depends on pipe timing, and with it the addresses everything after gets
        (n,) = struct.unpack("<Q", sys.stdin.buffer.read(8))
        ops, passive, warn_mode = pickle.loads(sys.stdin.buffer.read(n))
        sys.stdout.buffer.write(pickle.dumps(histsim.execute(sf, ops, passive, warn_mode), protocol=4))
        return
    if "--sim" in sys.argv:
        return sim_loop(sf)
    from .procs import _recv, _send, fork_call
    inp, out = sys.stdin.buffer, sys.stdout.buffer
    _send(out, ("hello", sf.__file__))
    while True:
        try:
            req = _recv(inp)
        except EOFError:
            return
        try:
            res = fork_call(answer, sf, req[1], req[2], req[3] if len(req) > 3 else "ignore", timeout=60.0)
            _send(out, ("ok", res))
        except Exception as e:  # reported to the client as a harness error
            _send(out, ("fail", repr(e)))


if __name__ == "__main__":
    main()
