"""fork-per-run isolation and the oracle interpreters.

Real wall-clock time is read here only by watchdogs that classify a stuck
child as a harness error; no simulated decision depends on it."""
import os
import pickle
import select
import signal
import struct
import subprocess
import sys
import time
import traceback
import zlib

from . import env


_STOP = None       # multiprocessing.Event shared by the pool: a violation was found, finish up
_KEEP_GOING = False
TIER = "quick"


def init_pool(stop_event, keep_going, tier="quick"):
    global _STOP, _KEEP_GOING, TIER
    _STOP, _KEEP_GOING, TIER = stop_event, keep_going, tier


def stop_requested():
    return _STOP is not None and _STOP.is_set()


def request_stop():
    if _STOP is not None and not _KEEP_GOING:
        _STOP.set()


class HarnessError(Exception):
    pass


class HarnessTimeout(HarnessError):
    pass


def _read_all(fd, deadline, pid):
    chunks = []
    while True:
        left = deadline - time.monotonic()
        if left <= 0:
            try:
                os.kill(pid, signal.SIGKILL)
            except ProcessLookupError:
                pass
            os.waitpid(pid, 0)
            raise HarnessTimeout("child %d exceeded its wall-clock watchdog" % pid)
        r, _, _ = select.select([fd], [], [], min(left, 1.0))
        if not r:
            continue
        b = os.read(fd, 1 << 20)
        if not b:
            break
        chunks.append(b)
    return b"".join(chunks)


def fork_raw(fn, *args, timeout=60.0):
    """Like fork_call, but the child's pickled result is returned as bytes, un-parsed: the forking
    process allocates nothing whose size or shape depends on the request, so that the object
    free-lists and small-object arenas every child inherits are the same for every request
    (memory addresses - id() - are a source of nondeterminism like any other)."""
    r, w = os.pipe()
    sys.stdout.flush()
    sys.stderr.flush()
    pid = os.fork()
    if pid == 0:
        code = 0
        try:
            os.close(r)
            try:
                out = ("ok", fn(*args))
            except BaseException:
                out = ("exc", traceback.format_exc())
            view = memoryview(pickle.dumps(out, protocol=4))
            while view:
                n = os.write(w, view[:1 << 16])
                view = view[n:]
        except BaseException:
            code = 3
        finally:
            os._exit(code)
    os.close(w)
    try:
        data = _read_all(r, time.monotonic() + timeout, pid)
    finally:
        os.close(r)
    os.waitpid(pid, 0)
    return data


def fork_call(fn, *args, timeout=60.0):
    """Run ``fn(*args)`` in a child forked from this (pristine) process and
    return its value.  Exceptions in the child are harness errors."""
    r, w = os.pipe()
    sys.stdout.flush()
    sys.stderr.flush()
    pid = os.fork()
    if pid == 0:
        code = 0
        try:
            os.close(r)
            try:
                out = ("ok", fn(*args))
            except BaseException:
                out = ("exc", traceback.format_exc())
            data = pickle.dumps(out, protocol=4)
            view = memoryview(data)
            while view:
                n = os.write(w, view[:1 << 16])
                view = view[n:]
        except BaseException:
            code = 3
        finally:
            os._exit(code)
    os.close(w)
    try:
        data = _read_all(r, time.monotonic() + timeout, pid)
    finally:
        os.close(r)
    _, status = os.waitpid(pid, 0)
    if not data:
        raise HarnessError("child died without a result (status %r)" % (status,))
    out = pickle.loads(data)
    if out[0] != "ok":
        raise HarnessError("exception in forked child:\n" + out[1])
    return out[1]


# ---------------------------------------------------------------------------
# oracle interpreter: a separate python process (other PYTHONHASHSEED) that
# imports selfies, calls nothing, and forks one child per query.
# ---------------------------------------------------------------------------

def _send(f, obj):
    data = pickle.dumps(obj, protocol=4)
    f.write(struct.pack("<I", len(data)))
    f.write(data)
    f.flush()


def _recv(f):
    hdr = f.read(4)
    if len(hdr) < 4:
        raise EOFError
    (n,) = struct.unpack("<I", hdr)
    data = f.read(n)
    if len(data) < n:
        raise EOFError
    return pickle.loads(data)


class OracleClient:
    """FreshOracle: the real code in a pristine interpreter of another hash
    seed.  ``query(K, call)`` = result of ``call`` in a fresh interpreter set
    to table K; memoised."""

    def __init__(self, hashseed=env.ORACLE_HASHSEEDS[0]):
        e = dict(os.environ)
        e["PYTHONHASHSEED"] = hashseed
        e["PYTHONPATH"] = env.VERIF + os.pathsep + e.get("PYTHONPATH", "")
        e["VERIF_REPO"] = env.REPO
        self.hashseed = hashseed
        self.p = subprocess.Popen(
            [sys.executable, "-m", "sim.oracle_server"], env=e, cwd=env.VERIF,
            stdin=subprocess.PIPE, stdout=subprocess.PIPE)
        self.memo = {}
        self.queries = 0
        self.hits = 0
        hello = _recv(self.p.stdout)
        if hello[0] != "hello" or not hello[1].startswith(env.REPO + os.sep):
            raise HarnessError("oracle imported selfies from %r" % (hello,))

    def query(self, K, call, warn_mode="ignore"):
        key = (K, call, warn_mode)
        self.queries += 1
        if key in self.memo:
            self.hits += 1
            return self.memo[key]
        # import state and set("default") must be indistinguishable: pick by a
        # hash of the query (deterministic), not always the same one
        Ksend = K
        if K is None and zlib.crc32(repr(call).encode()) & 1:
            Ksend = ("preset", "default")
        _send(self.p.stdin, ("q", Ksend, call, warn_mode))
        rep = _recv(self.p.stdout)
        if rep[0] != "ok":
            raise HarnessError("oracle failure: %r" % (rep,))
        self.memo[key] = rep[1]
        return rep[1]

    def close(self):
        try:
            self.p.stdin.close()
            self.p.wait(timeout=5)
        except Exception:
            self.p.kill()


def cold_query(K, call, hashseed="31337"):
    """The same query in a cold ``python`` process (no zygote, no fork):
    validates the assumption 'forked pristine zygote == fresh interpreter'."""
    e = dict(os.environ)
    e["PYTHONHASHSEED"] = hashseed
    e["PYTHONPATH"] = env.VERIF + os.pathsep + e.get("PYTHONPATH", "")
    e["VERIF_REPO"] = env.REPO
    p = subprocess.run(
        [sys.executable, "-m", "sim.oracle_server", "--once"], env=e, cwd=env.VERIF,
        input=pickle.dumps((K, call), protocol=4), stdout=subprocess.PIPE, timeout=60)
    if p.returncode != 0:
        raise HarnessError("cold interpreter failed (%d)" % p.returncode)
    return pickle.loads(p.stdout)


def _framed(payload):
    return struct.pack("<Q", len(payload)) + payload


def cold_history(ops, passive, hashseed, warn_mode="ignore"):
    """A whole history in a cold ``python`` process under another hash seed
    (no zygote, no fork): 'identical across processes and hash seeds'."""
    e = dict(os.environ)
    e["PYTHONHASHSEED"] = str(hashseed)
    e["PYTHONPATH"] = env.VERIF + os.pathsep + e.get("PYTHONPATH", "")
    e["VERIF_REPO"] = env.REPO
    p = subprocess.run(
        no_aslr_prefix() + [sys.executable, "-m", "sim.oracle_server", "--history"], env=e, cwd=env.VERIF,
        input=_framed(pickle.dumps((ops, passive, warn_mode), protocol=4)), stdout=subprocess.PIPE, timeout=120)
    if p.returncode != 0:
        raise HarnessError("cold interpreter failed on a history (%d)" % p.returncode)
    return pickle.loads(p.stdout)


_NOASLR = None


def no_aslr_prefix():
    """`setarch <machine> -R` where it works: a freshly started interpreter then gets the same
    addresses on every start (address-space randomisation is one more source of nondeterminism;
    effects that depend on object addresses replay exactly only without it)."""
    global _NOASLR
    if _NOASLR is None:
        import platform
        import shutil
        _NOASLR = []
        exe = shutil.which("setarch")
        if exe:
            cmd = [exe, platform.machine(), "-R"]
            try:
                outs = {subprocess.run(cmd + [sys.executable, "-c", "print(id(object()))"], stdout=subprocess.PIPE,
                                       stderr=subprocess.DEVNULL, timeout=30).stdout for _ in range(2)}
                if len(outs) == 1 and outs != {b""}:
                    _NOASLR = cmd
            except Exception:
                pass
    return list(_NOASLR)


def cold_sched(spec, timeout=700.0):
    """One schedsim run in a freshly started interpreter under the harness hash seed.  The spec is
    sent in one canonical form (sorted keys), whether it comes from a run or from a replay file."""
    import json
    spec = json.loads(json.dumps(spec, sort_keys=True))
    e = dict(os.environ)
    e["PYTHONHASHSEED"] = env.HARNESS_HASHSEED
    e["PYTHONPATH"] = env.VERIF + os.pathsep + e.get("PYTHONPATH", "")
    e["VERIF_REPO"] = env.REPO
    try:
        p = subprocess.run(
            no_aslr_prefix() + [sys.executable, "-m", "sim.oracle_server", "--sched"], env=e, cwd=env.VERIF,
            input=_framed(pickle.dumps(spec, protocol=4)), stdout=subprocess.PIPE, stderr=subprocess.PIPE, timeout=timeout)
    except subprocess.TimeoutExpired:
        raise HarnessTimeout("cold schedule run exceeded %.0f s" % timeout)
    if p.returncode != 0:
        raise HarnessError("cold interpreter failed on a schedule (%d): %s" % (p.returncode, p.stderr.decode("utf-8", "replace")[-600:]))
    return pickle.loads(p.stdout)


class SimClient:
    """The simulated caller's process: a dedicated pristine interpreter (harness hash seed) that
    imports selfies, calls nothing, never parses a request or a result itself, and forks one child
    per history.  Every history therefore starts from byte-identical interpreter state, whatever
    the worker process has done before."""

    def __init__(self):
        e = dict(os.environ)
        e["PYTHONHASHSEED"] = env.HARNESS_HASHSEED
        e["PYTHONPATH"] = env.VERIF + os.pathsep + e.get("PYTHONPATH", "")
        e["VERIF_REPO"] = env.REPO
        self.p = subprocess.Popen(
            [sys.executable, "-m", "sim.oracle_server", "--sim"], env=e, cwd=env.VERIF,
            stdin=subprocess.PIPE, stdout=subprocess.PIPE)
        hello = _recv(self.p.stdout)
        if hello[0] != "hello" or not hello[1].startswith(env.REPO + os.sep):
            raise HarnessError("simulated process imported selfies from %r" % (hello,))

    def _raw(self, kind, payload, timeout):
        self.p.stdin.write(kind)
        self.p.stdin.write(struct.pack("<Id", len(payload), timeout))
        self.p.stdin.write(payload)
        self.p.stdin.flush()
        hdr = self.p.stdout.read(4)
        if len(hdr) < 4:
            raise HarnessError("simulated process died")
        (n,) = struct.unpack("<I", hdr)
        data = self.p.stdout.read(n)
        if not data:
            raise HarnessTimeout("simulated history did not finish (or its process died)")
        out = pickle.loads(data)
        if out[0] != "ok":
            raise HarnessError("exception in simulated child:\n" + out[1])
        return out[1]

    def history(self, ops, passive, timeout=180.0, warn_mode="ignore"):
        # canonical form (sorted keys, plain lists): a history loaded from a replay file is then byte-identical
        # to the one that was minimised, so even memory addresses in the simulated process are the same
        import json
        canon = json.loads(json.dumps(ops, sort_keys=True))
        return self._raw(b"H", pickle.dumps((canon, passive, warn_mode), protocol=4), timeout)

    def presets(self):
        return self._raw(b"P", b"", 60.0)

    def close(self):
        try:
            self.p.stdin.close()
            self.p.wait(timeout=5)
        except Exception:
            self.p.kill()
