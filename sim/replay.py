"""python -m sim.replay <file>: re-execute a minimised history / schedule in a
fresh process (pristine zygote -> fork -> ops -> oracles).  Prints the same
VIOLATION line and exits 1 if the recorded violation class reproduces, else
exits 0."""
import json
import sys

from . import env


def main():
    env.reexec_if_needed("sim.replay")
    path = sys.argv[1]
    with open(path) as f:
        rep = json.load(f)
    if rep.get("engine") == "schedsim":
        from . import schedrunner
        ok, detail = schedrunner.replay(rep)
    else:
        from . import histsim, runner
        W = runner.worker()
        log, viols = W.run_ops(rep["ops"], rep["cfg"]["passive"], second=True, cold_seed=rep["cfg"].get("cold_seed"),
                                warn_mode=rep["cfg"].get("warn_mode", "ignore"),
                                cold=rep.get("replay_mode", "cold") == "cold")
        hit = [v for v in viols if v.oracle == rep["violation_class"]
               and histsim.attributable(rep["property"], v, rep["ops"], log)]
        ok = bool(hit)
        detail = json.dumps(hit[0].to_json())[:600] if hit else "violation classes seen: %r" % sorted({v.oracle for v in viols})
        W.close()
    if ok:
        print("VIOLATION property=%s replay=%s" % (rep["property"], path))
        print("  reproduced class=%s %s" % (rep["violation_class"], detail))
        sys.exit(1)
    print("NOT-REPRODUCED property=%s replay=%s (%s)" % (rep["property"], path, detail))
    sys.exit(0)


if __name__ == "__main__":
    main()
