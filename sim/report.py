"""Aggregation of run summaries into verdict, replay files and evidence."""
import collections
import hashlib
import json
import os

from . import env

KNOWN_FILE = os.path.join(env.VERIF, "known_findings.json")

RULES = {
    "histsim": (
        "One case = one seeded API history (3-60 ops: set preset/custom table, rejected updates, "
        "get/get_preset/get_alphabet, caller-side mutation of returned/passed objects, decode/encode "
        "incl. failing inputs, cache floods, observe) executed in a child forked from a pristine zygote "
        "and judged by ConfigModel + FreshOracle (+ stubs). Non-trivial = the run contains at least one "
        "translation query issued within 3 queries after a successful table change whose fresh-interpreter "
        "answer differs between the previous and the new table (staleness would be visible), or at least "
        "one read (get/get_preset/get_alphabet/translation) after a fired fault (rejected update or "
        "effective caller-side mutation). Distinct = distinct SHA-256 digest of (op list, all results)."),
    "schedsim": (
        "One case = one seeded schedule: 2-4 (thorough: up to 6) real threads x 1-4 translation calls on colliding "
        "inputs (feature-themed corpus per batch of 16 runs), optionally after a rejected configuration update in "
        "the set-up phase, in a child forked from a pristine (cold-cache) zygote; every selfies bytecode (or source "
        "line) is a pre-emption point decided by the run's PRNG under one of the policies random / window / pct / "
        "stall / shared. Non-trivial = at least two threads were inside a call at the same time and at least one "
        "context switch happened while the pre-empted thread was inside a shared-state window (a function of the "
        "fixed list that touches shared or call-spanning state on the current tree, or a 'hot' function of a "
        "salted window run). Distinct = distinct SHA-256 digest of (table, per-thread call lists, full switch "
        "list with code location)."),
}

COMPONENTS = {
    "real": ["entire selfies package imported from the working tree of /repo (decoder, encoder, "
             "bond_constraints, grammar_rules, mol_graph, utils.*)", "functools.lru_cache / dict / threading of CPython 3.12"],
    "stub": ["ConfigModel (reference model of set/get/presets)", "ValenceReader (independent SMILES valence reader)",
             "MolGen (constructive molecule generator with by-construction bond sums)",
             "caller threads' scheduler (baton passing; replaces the OS scheduler and the GIL hand-over)"],
    "oracle": ["FreshOracle = the same real code in pristine interpreters with other PYTHONHASHSEEDs, one forked child per query",
               "cold python interpreter cross-check of the zygote assumption"],
}


def load_known():
    if not os.path.exists(KNOWN_FILE):
        return {"findings": [], "fixed": []}
    with open(KNOWN_FILE) as f:
        return json.load(f)


def match_known(known, rep):
    """A violation is a known finding only if its *minimised* history has the
    shape the entry describes (see known_findings.json).  Matching is on the
    specific history, not on the property: any other violation of the same
    property is still reported."""
    for k in known.get("findings", []):
        if rep["property"] not in k["properties"]:
            continue
        if rep["violation_class"] not in k["violation_classes"]:
            continue
        if k["matcher"] == "needs_mutation_of_returned_alphabet":
            if _needs_alphabet_mutation(rep):
                return k
        if k["matcher"] == "three_digit_ring_number_in_output":
            if _three_digit_ring_number(rep):
                return k
        if k["matcher"] == "string_decode_raises_recursion_error":
            # the decoder recurses once per nested branch: on the current tree a RecursionError needs
            # close to a thousand Branch symbols in the failing string (limit 1000 minus the caller's
            # frames).  A RecursionError on a string with fewer of them is another defect and is reported.
            d = rep.get("violation", {}).get("detail", {})
            got, string = d.get("got"), d.get("string")
            if isinstance(got, (list, tuple)) and list(got[:2]) == ["err", "RecursionError"] \
                    and isinstance(string, str) and string.count("Branch") >= 800:
                return k
    return None


def _three_digit_ring_number(rep):
    """The decoded SMILES of the failing string contains a ring closure number of three digits *written
    while the numbers 1..99 were all taken by rings still open*.  Since fix 0cd4ce7 (closed rings' numbers
    are reused) that is the only situation in which the current tree writes one, and it is the very reason
    the output cannot be read.  A three-digit number written while fewer than 99 rings are open (a writer
    that numbers rings wrongly) is not this finding and is reported."""
    d = rep.get("violation", {}).get("detail", {})
    out = d.get("smiles")
    if out is None and isinstance(d.get("got"), (list, tuple)) and len(d["got"]) > 1:
        out = d["got"][1]
    if not isinstance(out, str) or not _three_digit_labels_only_when_full(out):
        return False
    return any(a and a[0] == "unreadable" for a in d.get("atoms", [["unreadable"]]))


def _three_digit_labels_only_when_full(smiles):
    """Scan the ring labels of a SMILES string up to the first '%' that is followed by three or more
    digits.  Before that point every label is unambiguous ('%dd' or 'd').  True iff 99 rings are open
    at that point - the numbers 1..99 are all taken, which is the only situation in which the current
    tree writes a longer number (however many digits it then has: with a thousand rings open it
    writes '%1000').  A '%ddd' met while fewer rings are open is read as '%dd' followed by a
    one-digit label, as any reader would."""
    open_, i, n = set(), 0, len(smiles)
    while i < n:
        c = smiles[i]
        if c == "[":
            j = smiles.find("]", i)
            if j < 0:
                return False
            i = j + 1
            continue
        if c == "%":
            j = i + 1
            while j < n and smiles[j].isdigit():
                j += 1
            if j - (i + 1) >= 3 and len(open_) >= 99:
                return True
            lab = smiles[i + 1:i + 3]
            if len(lab) != 2 or not lab.isdigit():
                return False
            i += 3
        elif c.isdigit():
            lab = c
            i += 1
        else:
            i += 1
            continue
        lab = int(lab)
        if lab in open_:
            open_.discard(lab)
        else:
            open_.add(lab)
    return False


def peel_ids(known_entry, rep):
    """Which ops of the full history to drop after a known finding was matched, so that the rest of the
    run can still be judged."""
    if known_entry["matcher"] in ("three_digit_ring_number_in_output", "string_decode_raises_recursion_error"):
        return {rep["ops"][-1]["id"]}          # the alpha_decode op that generated the string
    by_id = {op["id"]: op for op in rep["ops"]}
    return {op["id"] for op in rep["ops"] if op["op"] == "mutate"
            and by_id.get(op["h"], {}).get("op") in ("get_alphabet", "observe", "alpha_decode")}


def _needs_alphabet_mutation(rep):
    """The 1-minimal history contains a caller-side mutation of a set obtained
    from get_semantic_robust_alphabet (so the mutation is necessary for the
    violation), no configuration update that failed, and no other caller-side
    mutation except of a dict the caller then passes to set_semantic_constraints
    itself (building an argument is not a fault).  If all the alphabet mutations
    are additions, the symbols the read has too many must be among the added ones."""
    ops = rep.get("ops", [])
    by_id = {op["id"]: op for op in ops}
    passed_on = {op["h"] for op in ops if op["op"] == "set_from"}
    hit, added, only_adds = False, set(), True
    res = rep.get("results", [])
    for pos, op in enumerate(ops):
        if op["op"] == "mutate":
            src = by_id.get(op["h"])
            if src is not None and src["op"] in ("get_alphabet", "observe", "alpha_decode") and not op.get("ret"):
                hit = True
                if op["how"] == "add" and isinstance(op.get("arg"), str):
                    added.add(op["arg"])
                else:
                    only_adds = False
            elif src is not None and src["op"] in ("get", "get_preset") and op["h"] in passed_on and not op.get("ret"):
                continue          # the caller edits its own copy of a table and installs it
            else:
                return False
        elif op["op"] in ("set_table", "set_preset", "set_from") and res[pos].startswith("('err'"):
            return False      # a *failed* update is part of it: that is another story
    if hit and only_adds:
        d = rep.get("violation", {}).get("detail", {})
        if "got_minus_want" in d and not ({repr(x) for x in d["got_minus_want"]} <= {repr(x) for x in added}
                                          and not d.get("want_minus_got")):
            return False
    return hit


def finish(engine, prop, tier, seed, runs, res, wall, write_evidence=True, digest_only=False, workers=16):
    results = res["results"]
    harness = [r for r in results if r.get("harness")]
    good = [r for r in results if not r.get("harness")]
    batch_digest = hashlib.sha256(
        "".join("%d:%s;" % (r["i"], r["digest"]) for r in good).encode()).hexdigest()
    if digest_only:
        print("BATCH-DIGEST %s runs=%d" % (batch_digest, len(good)))
        return 2 if harness else 0

    viols = [r["violation"] for r in good if r.get("violation")]
    weak = [r["weak_violation"] for r in good if r.get("weak_violation")]
    if not viols and weak:
        viols = weak[:1]          # nothing better was found: report it, flagged as not exactly replayable
    os.makedirs(env.REPLAY_DIR, exist_ok=True)
    lines = []
    seen_known = {}
    for r in good:
        for k in r.get("known", []):
            if k["id"] not in seen_known:
                seen_known[k["id"]] = 0
                lines.append("KNOWN-FINDING: property=%s %s" % (prop, k["what"]))
            seen_known[k["id"]] += 1
    for rep in viols:
        path = os.path.join(env.REPLAY_DIR, "%s-%d-%d.json" % (prop, seed, rep["run"]))
        with open(path, "w") as f:
            json.dump(rep, f, indent=1, sort_keys=True)
        lines.append("VIOLATION property=%s replay=%s" % (prop, path))
        lines.append("  class=%s minimised to %d ops (from %d): %s" % (
            rep["violation_class"], len(rep.get("ops", rep.get("threads", []))), rep.get("original_length", 0),
            json.dumps(rep["violation"].get("detail"))[:400]))

    probes = collections.Counter()
    for r in good:
        for k, v in r.get("probes", {}).items():
            probes[k] += v
    nontrivial = {r["digest"] for r in good if r.get("nontrivial")}
    faults = {k: v for k, v in probes.items() if k.startswith("fault_")}
    reach = {k: v for k, v in probes.items() if not k.startswith("fault_")}
    samples = [r["sample"] for r in good if "sample" in r][:3]
    if not samples and good:
        samples = [{"digest": good[0]["digest"]}]
    sim_time = sum(r.get("nops", 0) for r in good) if engine == "histsim" else sum(r.get("steps", 0) for r in good)

    cov = {
        "evaluations": len(good),
        "distinct_nontrivial": len(nontrivial),
        "rule": RULES[engine],
        "samples": samples,
        "engine": engine,
        "batch_digest": batch_digest,
        "distinct_histories": len({r["digest"] for r in good}),
        "runs_per_hour": int(len(good) / wall * 3600) if wall > 0 else 0,
        "seeds_per_hour": int(len(good) / wall * 3600) if wall > 0 else 0,
        "simulated_time": {"unit": "API operations" if engine == "histsim" else "scheduler steps (pre-emption points)",
                           "total": sim_time,
                           "note": "the library has no clock; logical steps are the only time there is"},
        "faults_fired": dict(sorted(faults.items())),
        "reach_probes": dict(sorted(reach.items())),
        "fault_free_runs": sum(1 for r in good if r.get("fault_free")),
        "oracle_queries": sum(r.get("oracle_queries", 0) for r in good),
        "oracle_memo_hits": sum(r.get("oracle_hits", 0) for r in good),
        "cold_interpreter_crosschecks": sum(r.get("cold", 0) for r in good),
        "worker_processes": res["worker_pids"],
        "harness_errors": len(harness),
        "stopped_early_on_violation": res["stopped_early"],
        "other_property_oracles_tripped": sorted({o for r in good for o in r.get("others", [])}),
        "components": COMPONENTS,
        "known_findings_matched": dict(sorted(seen_known.items())),
        "violations_not_reproducible_in_a_cold_interpreter": len(weak),
    }
    for extra in ("model_states", "distinct_switch_sites", "context_switches", "late_instrumented", "lock_ops", "overlap_runs"):
        vals = [r[extra] for r in good if extra in r]
        if vals:
            if isinstance(vals[0], (list, set, tuple)):
                cov[extra] = len(set().union(*[set(v) for v in vals]))
            else:
                cov[extra] = sum(vals)
    ev = {
        "property_id": prop, "tier": tier, "seed": seed, "level": "exploration",
        "coverage": cov,
        "assumptions": [
            "a child forked from a process that imported selfies and called nothing is equivalent to a fresh interpreter (cross-checked against cold interpreters)",
            "CPython 3.12 with the GIL: C-level container operations are atomic; pre-emption at bytecode boundaries of code under selfies/",
            "sampling, not enumeration: histories <= 60 ops, schedules <= 4 threads x 4 calls",
        ],
        "wall_s": round(wall, 2),
        "violations": len(viols),
    }
    if write_evidence:
        os.makedirs(os.path.join(env.VERIF, "evidence"), exist_ok=True)
        with open(os.path.join(env.VERIF, "evidence", "%s.json" % prop), "w") as f:
            json.dump(ev, f, indent=1, sort_keys=True)

    for ln in lines:
        print(ln)
    print("runs=%d distinct_nontrivial=%d harness_errors=%d violations=%d known=%d wall=%.1fs (%.0f runs/h) digest=%s" % (
        len(good), len(nontrivial), len(harness), len(viols), len(seen_known), wall,
        cov["runs_per_hour"], batch_digest[:16]))
    if harness:
        for r in harness[:3]:
            print("%s run=%d: %s" % (r["harness"], r["i"], r["detail"]))
    if viols:
        return 1
    if harness:
        return 2
    stuck = stuck_probes(engine, prop, tier, probes)
    if stuck:
        print("HARNESS-ERROR reach probes stuck at zero: %s" % ", ".join(stuck))
        return 2
    return 0


REQUIRED_PROBES = {
    "C11": ("discriminating_query", "read_after_fault:decode", "fault_cache_flood", "fault_cancelled_call:decode",
            "fault_cancelled_call:encode"),
    "C12": ("read_after_fault:get", "read_after_fault:get_alphabet", "rejected_after_valid_prefix"),
    "C07": ("alphabet_reads", "alphabet_strings_valence_checked"),
    "C06": ("strict_at_capacity", "strict_one_over", "strict_one_below", "discriminating_query"),
    "C19": ("window_switches", "overlap", "double_miss_runs", "double_augmenting_path_runs"),
}


def stuck_probes(engine, prop, tier, probes):
    return [p for p in REQUIRED_PROBES.get(prop, ()) if not probes.get(p)]
