"""Worker-side driver of engine A: one pristine zygote per worker process, one
forked child per simulated run, oracle interpreters on the side; minimisation
of failing histories."""
import copy
import json
import os
import re

from . import env, gen, histsim, procs, stubs
from .calls import parse_arg

_W = None


class Worker:
    def __init__(self, two_oracles=True):
        self.sf = env.import_sut()          # imported, never called in this process
        self.oracle = procs.OracleClient(env.ORACLE_HASHSEEDS[0])
        self.oracle2 = procs.OracleClient(env.ORACLE_HASHSEEDS[1]) if two_oracles else None
        self.sim = procs.SimClient()
        self.presets, self.import_table = self.sim.presets()
        self.verifier = histsim.Verifier(self.oracle, self.oracle2, self.presets, self.import_table)
        self.cold_checks = 0

    def execute(self, ops, passive, warn_mode="ignore", cold=False):
        if cold:
            # a freshly started interpreter (harness hash seed) for this one history: slower (~70 ms), but
            # the same bytes in the same program give the same execution down to memory addresses
            import json
            canon = json.loads(json.dumps(ops, sort_keys=True))
            return procs.cold_history(canon, passive, env.HARNESS_HASHSEED, warn_mode)
        return self.sim.history(ops, passive, warn_mode=warn_mode)

    def run_ops(self, ops, passive, probes=None, second=False, cold_seed=None, warn_mode="ignore", cold=False):
        log = self.execute(ops, passive, warn_mode, cold)
        viols = self.verifier.verify(ops, log, probes, second, warn_mode)
        if cold_seed is not None:
            # the same history in a cold interpreter of another hash seed must give the same log
            cold = procs.cold_history(ops, passive, cold_seed, warn_mode)
            for idx, (a, b) in enumerate(zip(log, cold)):
                if a["r"][:2] != b["r"][:2] or a.get("p") != b.get("p"):
                    viols.append(histsim.Violation("history_eq_cold_interpreter", idx, {
                        "hashseed": cold_seed, "forked_zygote": repr(a["r"][:2])[:200], "cold": repr(b["r"][:2])[:200]}))
                    viols.sort(key=lambda v: v.idx)
                    break
            if probes is not None:
                probes["cold_history_replays"] = probes.get("cold_history_replays", 0) + 1
        return log, viols

    def close(self):
        self.sim.close()
        self.oracle.close()
        if self.oracle2:
            self.oracle2.close()


def worker():
    global _W
    if _W is None:
        _W = Worker()
    return _W


# ---------------------------------------------------------------------------
# one simulated run
# ---------------------------------------------------------------------------

def run_one(prop, base_seed, i, want_sample=False):
    W = worker()
    rng = histsim.history_rng(base_seed, prop, i)
    cfg, ops = gen.gen_history(rng, prop, procs.TIER)
    probes = {}
    q0, h0 = W.oracle.queries, W.oracle.hits
    # every 4th run is judged by two oracle interpreters (hash seeds 77 and 4242) that must agree
    cold_seed = (1000 + i) if i % 16 == 5 else None
    cfg["cold_seed"] = cold_seed
    log, viols = W.run_ops(ops, cfg["passive"], probes, second=(i % 4 == 0), cold_seed=cold_seed,
                           warn_mode=cfg.get("warn_mode", "ignore"))
    probes["warn_mode:" + cfg.get("warn_mode", "ignore")] = 1
    mine = [v for v in viols if prop in histsim.ORACLE_PROPS.get(v.oracle, {})]
    summary = {
        "i": i,
        "digest": histsim.digest(ops, log),
        "nops": len(ops),
        "probes": probes,
        "oracle_queries": W.oracle.queries - q0,
        "oracle_hits": W.oracle.hits - h0,
        "fault_free": cfg["fault_free"],
        "model_states": sorted({_h(op.get("lit") or op.get("name") or "default") for op, rec in zip(ops, log)
                                if op["op"] in ("set_table", "set_preset") and rec["r"][0] == "ok"}),
        "violation": None,
        "others": sorted({v.oracle for v in viols if v not in mine}),
    }
    summary["nontrivial"] = bool(probes.get("discriminating_query")) or any(
        k.startswith("read_after_fault") for k in probes)
    if want_sample:
        summary["sample"] = {"cfg": cfg, "ops": ops, "results": [_short(rec["r"]) for rec in log]}
    # cold-interpreter cross-check of the oracle assumption, once per run index multiple
    if i % 97 == 0:
        summary["cold"] = cold_crosscheck(W, ops, log)
    if mine:
        judge(W, prop, cfg, ops, viols, summary, base_seed, i)
    return summary


def judge(W, prop, cfg, ops, viols, summary, base_seed, i):
    """Minimise the run's violations class by class.  A minimised violation
    that matches an entry of known_findings.json is recorded as such, its
    trigger (the corrupting mutate ops) is peeled off the *full* history and
    the run is judged again, so a listed finding never masks another one."""
    from . import report
    known = report.load_known()
    summary["known"] = []
    cur = ops
    skip = set()
    for _ in range(6):
        mine = [v for v in viols if prop in histsim.ORACLE_PROPS.get(v.oracle, {}) and v.oracle not in skip]
        if not mine:
            return
        v = mine[0]
        rep = minimise(W, prop, cfg, cur, v)
        if rep is None:
            skip.add(v.oracle)      # does not speak against this property
            continue
        rep.update(seed=base_seed, run=i, engine="histsim")
        k = report.match_known(known, rep)
        if k is None:
            if rep.get("replay_mode") == "server":
                # seen, but not reproducible in a freshly started interpreter (depends on the state of the
                # long-lived simulated-caller process): kept as a weak finding, the search goes on for a
                # violation whose replay file reproduces exactly
                summary["weak_violation"] = rep
                return
            summary["violation"] = rep
            return
        summary["known"].append({"id": k["id"], "what": k["what"], "class": rep["violation_class"]})
        drop = report.peel_ids(k, rep)
        cur = [op for op in cur if op["id"] not in drop]
        _, viols = W.run_ops(cur, cfg["passive"], second=(i % 4 == 0), cold_seed=cfg.get("cold_seed"),
                             warn_mode=cfg.get("warn_mode", "ignore"))


def _h(x):
    import hashlib
    return hashlib.sha1(repr(x).encode()).hexdigest()[:12]


def _short(r):
    s = repr(r[:2])
    return s if len(s) < 160 else s[:157] + "..."


def cold_crosscheck(W, ops, log):
    """'forked pristine zygote == fresh interpreter': ask a cold python process
    the first translation query of this run."""
    for op in ops:
        if op["op"] == "decode":
            call = ("decode", op["x"], op["compatible"], op["attribute"])
            a = W.oracle.query(None, call)
            b = procs.cold_query(None, call)
            if a[:2] != b[:2]:
                raise procs.HarnessError("cold interpreter disagrees with forked zygote: %r vs %r" % (a, b))
            return 1
    return 0


# ---------------------------------------------------------------------------
# minimisation
# ---------------------------------------------------------------------------

_SYM = re.compile(r"\[[^\]]*\]|\.|.", re.S)


def _same(viols, cls):
    for v in viols:
        if v.oracle == cls:
            return v
    return None


def minimise(W, prop, cfg, ops, viol, budget=500, cold_pass=False):
    """ddmin over the op list, then per-op argument shrinking, accepting a
    candidate only if a fresh pristine run reports the same violation class.
    Returns a replay record, or None if the minimised violation does not speak
    against ``prop`` (see histsim.attributable)."""
    cls = viol.oracle
    passive = cfg["passive"]
    spent = [0]
    mode = {"cold": True}

    def fails(cand):
        if spent[0] >= budget:
            return None
        spent[0] += 1
        try:
            log, viols = W.run_ops(cand, passive, second=(cls == "oracles_agree"),
                                   cold_seed=cfg.get("cold_seed") if cls == "history_eq_cold_interpreter" else None,
                                   warn_mode=cfg.get("warn_mode", "ignore"), cold=mode["cold"])
        except procs.HarnessError:
            return None
        v = _same(viols, cls)
        return (log, v) if v else None

    cur = [op for op in ops]
    # Pass 1 minimises with the fast simulated-caller process; the result is then confirmed in a freshly
    # started interpreter, which is also where a replay file is executed (same bytes, same program: the
    # same execution down to memory addresses).  If that confirmation fails (address-dependent behaviour),
    # pass 2 minimises again with a fresh interpreter per candidate (about 70 ms each); only if the
    # violation does not show there at all is the server-mode result kept, flagged as such.
    mode["cold"] = cold_pass
    if cold_pass and not fails(cur):
        mode["cold"] = False
    # everything after the violating op is irrelevant
    cut = cur[:viol.idx + 1]
    if fails(cut):
        cur = cut
    # ddmin over ops
    n = 2
    while len(cur) >= 2:
        chunk = max(1, len(cur) // n)
        reduced = False
        for start in range(0, len(cur), chunk):
            cand = cur[:start] + cur[start + chunk:]
            if cand and fails(cand):
                cur = cand
                n = max(n - 1, 2)
                reduced = True
                break
        if not reduced:
            if chunk == 1:
                break
            n = min(n * 2, len(cur))
    # passive snapshots are part of the history: try without
    if passive:
        passive = False
        if not fails(cur):
            passive = True
    # argument shrinking
    for pos in range(len(cur)):
        op = cur[pos]
        if op["op"] == "decode":
            cur = _shrink_seq(cur, pos, "x", _SYM.findall(op["x"]), fails)
        elif op["op"] == "encode" and cls not in ("strict_iff_molgen", "nonstrict_raises_molgen", "respelt_eq_original"):
            cur = _shrink_seq(cur, pos, "s", list(op["s"]), fails, drop="gt")
        elif op["op"] == "set_table":
            cur = _shrink_table(cur, pos, fails)
        for flag in ("compatible", "attribute"):
            if cur[pos].get(flag):
                cand = copy.deepcopy(cur)
                cand[pos][flag] = False
                if fails(cand):
                    cur = cand
    res = None
    spent[0] = 0
    if not cold_pass:
        mode["cold"] = True
        res = fails(cur)              # confirmation in a freshly started interpreter
        if res is None:
            return minimise(W, prop, cfg, ops, viol, budget, cold_pass=True)
    else:
        res = fails(cur)
    if res is None:
        return None
    log, v = res
    if not histsim.attributable(prop, v, cur, log):
        return None
    return {
        "replay_mode": "cold" if mode["cold"] else "server",
        "property": prop, "cfg": dict(cfg, passive=passive), "ops": cur,
        "violation_class": cls, "violation": v.to_json(),
        "results": [_short(rec["r"]) for rec in log],
        "original_length": len(ops),
    }


def _shrink_seq(cur, pos, field, parts, fails, drop=None):
    n = 2
    while len(parts) >= 2:
        chunk = max(1, len(parts) // n)
        reduced = False
        for start in range(0, len(parts), chunk):
            cp = parts[:start] + parts[start + chunk:]
            cand = copy.deepcopy(cur)
            cand[pos][field] = "".join(cp)
            if drop:
                cand[pos].pop(drop, None)
            if fails(cand):
                cur, parts = cand, cp
                n = max(n - 1, 2)
                reduced = True
                break
        if not reduced:
            if chunk == 1:
                break
            n = min(n * 2, len(parts))
    return cur


def _shrink_table(cur, pos, fails):
    try:
        arg = parse_arg(cur[pos]["lit"])
    except Exception:
        return cur
    if not isinstance(arg, dict):
        return cur
    items = list(arg.items())
    i = 0
    while i < len(items):
        cp = items[:i] + items[i + 1:]
        cand = copy.deepcopy(cur)
        cand[pos]["lit"] = "{" + ", ".join("%r: %r" % kv for kv in cp) + "}"
        if fails(cand):
            cur, items = cand, cp
        else:
            i += 1
    return cur


# ---------------------------------------------------------------------------
# batch entry point for the process pool
# ---------------------------------------------------------------------------

def run_batch(prop, base_seed, indices, sample_every):
    out = []
    for i in indices:
        if procs.stop_requested():
            break
        try:
            out.append(run_one(prop, base_seed, i, want_sample=(i % sample_every == 0)))
            if out[-1].get("violation"):
                procs.request_stop()
        except procs.HarnessTimeout as e:
            out.append({"i": i, "harness": "HARNESS-TIMEOUT", "detail": str(e)})
        except procs.HarnessError as e:
            out.append({"i": i, "harness": "HARNESS-ERROR", "detail": str(e)[-1500:]})
        except Exception as e:   # a bug in the harness is never a verdict
            import traceback
            out.append({"i": i, "harness": "HARNESS-ERROR", "detail": traceback.format_exc()[-1500:]})
    return os.getpid(), out
