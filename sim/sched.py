"""Engine B, in-process part: baton-passing scheduler for real caller threads.

Pre-emption seam: sys.monitoring (PEP 669) local INSTRUCTION events on every
code object defined under <repo>/selfies/.  Exactly one simulated thread is
runnable at any time; which one is decided here, from the run's PRNG or from
an explicit recorded schedule -- never by the OS or the GIL."""
import hashlib
import os
import random
import sys
import _thread
import threading
import types
import warnings

from . import env
from .calls import apply_table, do_call

mon = sys.monitoring
TOOL = mon.DEBUGGER_ID

WINDOW = frozenset((
    "process_atom_symbol", "_process_atom_selfies_no_cache", "get_bonding_capacity",
    "bonding_capacity", "mol_to_smiles", "_derive_smiles_from_fragment", "_form_rings_bilocally",
    "kekulize", "find_perfect_matching", "_find_augmenting_path", "_greedy_matching",
    "smiles_to_mol", "_derive_mol_from_tokens", "_derive_mol_from_symbols", "add_atom",
    "_fragment_to_selfies", "_make_ring_bonds", "add_ring_bond", "_prune_from_ds"))

_tl = threading.local()
_S = None                  # the scheduler of the current run (child process only)
_state = {"instrumented": 0, "late": 0, "root": None, "line_starts": {}}
_real_lock = threading.Lock
_real_rlock = threading.RLock


# ---------------------------------------------------------------------------
# lock seam (for changed code; the current tree creates no locks)
# ---------------------------------------------------------------------------

class SimLock:
    """threading.Lock / RLock for code under selfies/: acquire of a held lock
    yields to the scheduler instead of blocking the process."""

    def __init__(self, reentrant=False):
        self.reentrant = reentrant
        self.owner = None
        self.count = 0
        self.ext = 0          # held this many times by a non-simulated thread (the set-up phase)
        self._real = _real_rlock() if reentrant else _real_lock()

    def acquire(self, blocking=True, timeout=-1):
        tid = getattr(_tl, "tid", None)
        S = _S
        if tid is None or S is None:
            # serial use (alone-runs' set-up, post-quiescence probes): a lock that a finished call
            # left held would hang the harness for real - report it as that call's outcome instead
            if blocking and timeout < 0:
                if not self._real.acquire(True, 8.0):
                    raise RuntimeError("selfies lock still held by a call that has returned")
                self.ext += 1
                return True
            ok = self._real.acquire(blocking, timeout)
            if ok:
                self.ext += 1
            return ok
        S.lock_ops += 1
        # a lock the set-up phase (rejected update, ...) left held is held for good: its owner is the
        # coordinating thread, which waits for the simulated threads
        while self.ext > 0 or (self.owner is not None and not (self.reentrant and self.owner == tid)):
            if not blocking:
                return False
            S.block(tid, self)
        self.owner = tid
        self.count += 1
        return True

    def release(self):
        tid = getattr(_tl, "tid", None)
        S = _S
        if tid is None or S is None:
            self.ext = max(0, self.ext - 1)
            return self._real.release()
        if self.owner is None:
            raise RuntimeError("release unlocked lock")
        self.count -= 1
        if self.count == 0:
            self.owner = None
            S.unblock(self)

    def locked(self):
        return self.owner is not None or self._real.locked()

    __enter__ = acquire

    def __exit__(self, *a):
        self.release()


class SimEvent:
    """threading.Event for code under selfies/: wait() yields to the scheduler."""

    def __init__(self):
        self._flag = False
        self._real = _real_event()

    def is_set(self):
        return self._flag

    isSet = is_set

    def set(self):
        self._flag = True
        self._real.set()
        if _S is not None:
            _S.unblock(self)

    def clear(self):
        self._flag = False
        self._real.clear()

    def wait(self, timeout=None):
        tid = getattr(_tl, "tid", None)
        S = _S
        if tid is None or S is None:
            if not self._real.wait(8.0 if timeout is None else min(timeout, 8.0)) and timeout is None:
                raise RuntimeError("selfies event never set by a call that has returned")
            return self._flag
        S.lock_ops += 1
        while not self._flag:
            if not S.block(tid, self, timed=timeout is not None):
                break              # nothing else can run: the (simulated) time-out elapses
        return self._flag


class SimCondition:
    """threading.Condition for code under selfies/ (over a simulator-aware lock)."""

    def __init__(self, lock=None):
        self._lock = lock if lock is not None else SimLock(True)
        self.acquire = self._lock.acquire
        self.release = self._lock.release
        self._waiters = []

    def __enter__(self):
        return self._lock.acquire()

    def __exit__(self, *a):
        self._lock.release()

    def wait(self, timeout=None):
        tid = getattr(_tl, "tid", None)
        S = _S
        if tid is None or S is None:
            raise RuntimeError("selfies condition waited on outside the simulated threads")
        token = object()
        self._waiters.append(token)
        depth = self._lock.count if isinstance(self._lock, SimLock) else 1
        for _ in range(depth):
            self._lock.release()
        ok = True
        while token in self._waiters:
            if not S.block(tid, token, timed=timeout is not None):
                self._waiters.remove(token)
                ok = False
        for _ in range(depth):
            self._lock.acquire()
        return ok

    def wait_for(self, predicate, timeout=None):
        r = predicate()
        while not r:
            if not self.wait(timeout):
                return predicate()
            r = predicate()
        return r

    def notify(self, n=1):
        for token in self._waiters[:n]:
            self._waiters.remove(token)
            if _S is not None:
                _S.unblock(token)

    def notify_all(self):
        self.notify(len(self._waiters))

    notifyAll = notify_all


class SimSemaphore:
    def __init__(self, value=1):
        self._value = value

    def acquire(self, blocking=True, timeout=None):
        tid = getattr(_tl, "tid", None)
        S = _S
        if tid is None or S is None:
            if self._value > 0:
                self._value -= 1
                return True
            if not blocking:
                return False
            raise RuntimeError("selfies semaphore exhausted by calls that have returned")
        while self._value <= 0:
            if not blocking:
                return False
            if not S.block(tid, self, timed=timeout is not None):
                return False
        self._value -= 1
        return True

    def release(self, n=1):
        self._value += n
        if _S is not None:
            _S.unblock(self)

    __enter__ = acquire

    def __exit__(self, *a):
        self.release()


_real_event = threading.Event
_real_condition = threading.Condition
_real_semaphore = threading.Semaphore
_real_bsemaphore = threading.BoundedSemaphore


def _from_selfies(depth=2):
    mod = sys._getframe(depth).f_globals.get("__name__", "")
    return mod == "selfies" or mod.startswith("selfies.")


def install_lock_seam():
    """Before selfies is imported: Lock / RLock / Event / Condition / Semaphore created by a
    module under selfies are simulator-aware (blocking yields to the scheduler instead of blocking
    the process while the other party is parked); everybody else gets the real thing."""
    def factory(reentrant, real):
        def make(*a, **kw):
            if _from_selfies():
                return SimLock(reentrant)
            return real(*a, **kw)
        return make

    def cls_factory(sim, real):
        class Dispatch:
            def __new__(cls, *a, **kw):
                if _from_selfies():
                    return sim(*a, **kw)
                return real(*a, **kw)
        Dispatch.__name__ = real.__name__
        return Dispatch

    threading.Lock = factory(False, _real_lock)
    threading.RLock = factory(True, _real_rlock)
    threading.Event = cls_factory(SimEvent, _real_event)
    threading.Condition = cls_factory(SimCondition, _real_condition)
    threading.Semaphore = cls_factory(SimSemaphore, _real_semaphore)
    threading.BoundedSemaphore = cls_factory(SimSemaphore, _real_bsemaphore)


# ---------------------------------------------------------------------------
# instrumentation (done once in the zygote; survives fork)
# ---------------------------------------------------------------------------

def _walk(co, seen, out):
    if co in seen:
        return
    seen.add(co)
    out.append(co)
    for c in co.co_consts:
        if isinstance(c, types.CodeType):
            _walk(c, seen, out)


def selfies_code_objects():
    root = os.path.join(env.REPO, "selfies") + os.sep
    seen, out = set(), []

    def visit(f):
        f = getattr(f, "__wrapped__", f)
        f = getattr(f, "func", f)        # functools.partial
        if isinstance(f, (staticmethod, classmethod)):
            f = f.__func__
        if isinstance(f, property):
            for g in (f.fget, f.fset, f.fdel):
                if g is not None:
                    visit(g)
            return
        code = getattr(f, "__code__", None)
        if isinstance(code, types.CodeType) and code.co_filename.startswith(root):
            _walk(code, seen, out)

    for name, m in sorted(sys.modules.items()):
        if m is None or not (name == "selfies" or name.startswith("selfies.")):
            continue
        for v in list(vars(m).values()):
            if isinstance(v, type) and getattr(v, "__module__", "").startswith("selfies"):
                for a in list(vars(v).values()):
                    visit(a)
            else:
                visit(v)
    return out


_MUTATORS = ("setdefault", "append", "add", "update", "pop", "popitem", "clear", "insert", "extend", "remove",
             "discard", "appendleft", "popleft")
_CTA = {}      # code -> {offset: ("check" | "act", global name)}, filled by compute_shared_sites


def compute_shared_sites(codes):
    """Bytecode offsets at which selfies code touches process-wide mutable state, computed from
    the code under test itself (so state introduced by a change is found as well):
      * LOAD/STORE/DELETE_GLOBAL of a module global that is a mutable container (dict, list, set,
        deque, ...) or a memoising wrapper (has cache_info), or that some function rebinds
        with a `global` statement;
      * entry of a function wrapped by a memoising wrapper (lru_cache'd functions and properties).
    The 'shared' scheduling policy pre-empts right before these instructions - the points where
    check-then-act sequences on shared state can be split."""
    import collections
    import dis
    mutable = (dict, list, set, bytearray, collections.deque)
    by_file = {}
    wrapped = set()

    def note_wrapper(v):
        if isinstance(v, property):
            v = v.fget
        if hasattr(v, "cache_info") and hasattr(v, "__wrapped__"):
            c = getattr(v.__wrapped__, "__code__", None)
            if c is not None:
                wrapped.add(c)

    for name, m in sorted(sys.modules.items()):
        if m is None or not (name == "selfies" or name.startswith("selfies.")):
            continue
        f = getattr(m, "__file__", None)
        if f:
            by_file[os.path.abspath(f)] = vars(m)
        for v in list(vars(m).values()):
            note_wrapper(v)
            if isinstance(v, type) and getattr(v, "__module__", "").startswith("selfies"):
                for a in list(vars(v).values()):
                    note_wrapper(a)
    # names of mutable class-level attributes and function attributes, functions with mutable defaults
    attr_names = set()
    mutable_default_codes = set()

    def note_fn(v):
        f = getattr(v, "__wrapped__", v)
        if isinstance(f, (staticmethod, classmethod)):
            f = f.__func__
        if isinstance(f, types.FunctionType):
            for k, x in vars(f).items():
                if isinstance(x, mutable):
                    attr_names.add(k)
            dflt = tuple(f.__defaults__ or ()) + tuple((f.__kwdefaults__ or {}).values())
            if any(isinstance(x, mutable) for x in dflt):
                mutable_default_codes.add(f.__code__)

    for name, m in sorted(sys.modules.items()):
        if m is None or not (name == "selfies" or name.startswith("selfies.")):
            continue
        for v in list(vars(m).values()):
            note_fn(v)
            if isinstance(v, type) and getattr(v, "__module__", "").startswith("selfies"):
                for k, a in list(vars(v).items()):
                    note_fn(a)
                    if isinstance(a, mutable) and not k.startswith("__"):
                        attr_names.add(k)
    stored = collections.defaultdict(set)
    ins_cache = {}
    for co in codes:
        ins_cache[co] = list(dis.get_instructions(co))
        for ins in ins_cache[co]:
            if ins.opname in ("STORE_GLOBAL", "DELETE_GLOBAL"):
                stored[co.co_filename].add(ins.argval)
    sites = {}
    _CTA.clear()
    for co in codes:
        g = by_file.get(os.path.abspath(co.co_filename), {})
        offs = set()
        for ins in ins_cache[co]:
            if ins.opname in ("LOAD_GLOBAL", "STORE_GLOBAL", "DELETE_GLOBAL"):
                v = g.get(ins.argval)
                if ins.argval in stored[co.co_filename] or isinstance(v, mutable) or hasattr(v, "cache_info"):
                    offs.add(ins.offset)
            elif ins.opname in ("LOAD_ATTR", "STORE_ATTR", "DELETE_ATTR", "LOAD_METHOD") and ins.argval in attr_names:
                offs.add(ins.offset)      # a class-level mutable attribute / a function attribute
        # local aliases: `buf = _SHARED` followed by uses of `buf` - every later load of that local in
        # the function touches the shared object as well (a write through the alias and the read that
        # follows it are the two ends of a window that a switch can split)
        aliases = set()
        seq = ins_cache[co]
        for a, b in zip(seq, seq[1:]):
            if b.opname == "STORE_FAST" and a.offset in offs and a.opname in ("LOAD_GLOBAL", "LOAD_ATTR") \
                    and (isinstance(g.get(a.argval), mutable) or a.argval in attr_names):
                aliases.add(b.argval)
        if aliases:
            for ins in seq:
                if ins.opname.startswith("LOAD_FAST") and ins.argval in aliases:
                    offs.add(ins.offset)
        # check-then-act on a rebound global (`if _X is None: _X = make()`): the loads are the
        # "check", a later STORE_GLOBAL of the same name in the same function is the "act"
        loaded = {}
        for ins in seq:
            if ins.opname == "LOAD_GLOBAL" and ins.argval in stored[co.co_filename]:
                loaded.setdefault(ins.argval, []).append(ins.offset)
            elif ins.opname == "STORE_GLOBAL" and ins.argval in loaded:
                d = _CTA.setdefault(co, {})
                d[ins.offset] = ("act", ins.argval)
                for o in loaded[ins.argval]:
                    d.setdefault(o, ("check", ins.argval))
        # an update that spans two shared containers (`_A[k] = x` ... `_B[k2] = y`): between writing
        # the first and touching the second the pair is inconsistent.  The load of the second
        # container after a write to the first is the "act2" point (keyed by the first), every load
        # of a shared container is a "check" of it
        written = None                 # the shared container this function has written to so far
        for k, ins in enumerate(seq):
            if ins.opname == "LOAD_GLOBAL" and isinstance(g.get(ins.argval), mutable):
                d = _CTA.setdefault(co, {})
                if written is not None and ins.argval != written and ins.offset not in d:
                    d[ins.offset] = ("act2", written)
                else:
                    d.setdefault(ins.offset, ("check", ins.argval))
                nxt = seq[k + 1:k + 4]
                if any(x.opname in ("STORE_SUBSCR", "DELETE_SUBSCR") for x in nxt) or (
                        nxt and nxt[0].opname in ("LOAD_ATTR", "LOAD_METHOD") and nxt[0].argval in _MUTATORS):
                    written = ins.argval
                    if d.get(ins.offset, ("check",))[0] == "check":
                        # a write to a shared container: one of possibly many (a table filled in place)
                        d[ins.offset] = ("wr", ins.argval)
        if co in mutable_default_codes:
            offs.add(2)                   # a function with a mutable default argument
        if co in wrapped:
            offs.add(2)
        if offs:
            # negative numbers: the source lines of those instructions, for runs pre-empted at LINE events
            lines = set()
            for ins in ins_cache[co]:
                if ins.offset in offs and ins.positions and ins.positions.lineno:
                    lines.add(-ins.positions.lineno)
            if co in wrapped:
                lines.add(-(co.co_firstlineno + 1))
            sites[co] = frozenset(offs | lines)
    return sites


def instrument():
    root = os.path.join(env.REPO, "selfies") + os.sep
    _state["root"] = root
    mon.use_tool_id(TOOL, "schedsim")
    _state["codes"] = selfies_code_objects()
    _state["shared_sites"] = compute_shared_sites(_state["codes"])
    for co in _state["codes"]:
        mon.set_local_events(TOOL, co, mon.events.INSTRUCTION)
        _state["instrumented"] += 1
    mon.register_callback(TOOL, mon.events.INSTRUCTION, _on_instr)
    mon.register_callback(TOOL, mon.events.LINE, _on_line)
    mon.register_callback(TOOL, mon.events.PY_START, _on_start)
    # exception paths: raising, unwinding and handling are global events (PEP 669 has no local ones)
    for ev in (mon.events.RAISE, mon.events.RERAISE, mon.events.PY_UNWIND, mon.events.EXCEPTION_HANDLED):
        mon.register_callback(TOOL, ev, _on_exc)
    mon.set_events(TOOL, mon.events.PY_START | mon.events.RAISE | mon.events.RERAISE | mon.events.PY_UNWIND
                   | mon.events.EXCEPTION_HANDLED)


def _on_exc(code, offset, exc):
    # a simulated thread is raising, unwinding or entering a handler: its next pre-emption points
    # are "inside an exception path" (clean-up code that runs rarely and late)
    S = _S
    if S is not None:
        tid = getattr(_tl, "tid", None)
        if tid is not None:
            S.exc_window[tid] = 40


def _on_start(code, offset):
    # catches selfies code objects the static walk missed (created later, nested)
    if code.co_filename.startswith(_state["root"]):
        ev = _state.get("event", mon.events.INSTRUCTION)
        if not (mon.get_local_events(TOOL, code) & ev):
            mon.set_local_events(TOOL, code, ev)
            _state["late"] += 1
            if _S is not None:
                _S.late += 1
        return None
    return mon.DISABLE


def native_line_mode():
    """(in the forked child of one run) pre-empt at source lines only, using LINE events instead
    of filtering INSTRUCTION events: ~8x fewer callbacks, for runs with very large inputs."""
    _state["event"] = mon.events.LINE
    for co in _state["codes"]:
        mon.set_local_events(TOOL, co, mon.events.LINE)


def _on_line(code, line):
    _on_instr(code, -line)       # pseudo-offset: the negated line number


def _on_instr(code, offset):
    S = _S
    if S is None:
        return
    tid = getattr(_tl, "tid", None)
    if tid is None:
        return
    try:
        S.step_event(tid, code, offset)
    except RecursionError:
        # the SUT is at the interpreter's recursion limit (deep-nesting inputs): it is about to
        # raise RecursionError itself; this event is simply not a pre-emption point
        return
    except BaseException as e:      # never let the harness raise into the SUT
        S.harness_error = repr(e)


def _line_starts(code):
    ls = _state["line_starts"].get(code)
    if ls is None:
        ls = frozenset(start for start, _, line in code.co_lines() if line is not None)
        _state["line_starts"][code] = ls
    return ls


# ---------------------------------------------------------------------------
# scheduler
# ---------------------------------------------------------------------------

class Sched:
    def __init__(self, n, policy, rng=None, explicit=None, budget=10 ** 9):
        self.n = n
        self.policy = policy            # dict(kind=..., p=..., gran=..., ...)
        self.rng = rng
        self.explicit = explicit        # dict(switches=[[step, to]], exits=[to, ...]) or None
        self.budget = budget
        # the baton: one raw lock per thread, held (locked) while the thread may not run.  Raw
        # _thread locks are used because their acquire/release are single C calls: they need no
        # Python frame, so they can neither raise RecursionError half-way (deep-nesting inputs run
        # the SUT at the interpreter's recursion limit) nor be torn by it
        self.sems = [_thread.allocate_lock() for _ in range(n)]
        for lk in self.sems:
            lk.acquire()
        self.alive = [True] * n
        self.blocked = [None] * n
        self.in_call = [False] * n
        self.step = 0
        self.tsteps = [0] * n
        self.switches = []              # [step, from, to, reason, co_name, offset]
        self.exits = []
        self.done_lock = _thread.allocate_lock()
        self.done_lock.acquire()
        self.finished = False
        self.outcome = "ok"             # ok | deadlock | step-budget
        self.harness_error = None
        self.lock_ops = 0
        self.late = 0
        self.window_switches = 0
        self.overlap = 0
        self.sites = set()
        self.miss_calls = 0
        self._shared = _state.get("shared_sites", {})
        self._offset = -1
        self._held = {}                 # thread -> (file, global) it is parked in front of storing
        self._holds = [0] * n
        self.exc_window = [0] * n       # pre-emption points left "inside an exception path", per thread
        self.exc_q = policy.get("exc_q", 0.0) if explicit is None and policy["kind"] in ("random", "window", "shared") else 0.0
        self.exc_release = policy.get("exc_release", 0.0)
        self._parked_exc = []           # threads parked inside an exception path
        self.exc_parks = 0
        self._held_keys = set()
        self._wr_count = [0] * n
        self._release_after = {}        # thread that just passed the check -> thread to wake next
        self.holds_fired = 0
        self._hold_on = bool(policy.get("hold")) and policy["kind"] in ("shared", "random", "window") and explicit is None
        self.shared_switches = 0
        self._hot = {}
        self.stalls_fired = 0
        self.missing = [None] * n       # symbol a thread is computing on the cache-miss path
        self.double_miss = 0            # two threads on the miss path for the same symbol at once
        self.in_aug = [False] * n
        self.double_aug = 0             # two threads inside the augmenting-path search at once
        self.current = None
        self._xi = 0                    # index into explicit switches
        self._ei = 0
        self.gran_line = policy.get("gran") == "line"
        if policy["kind"] in ("pct", "stall") and explicit is None:
            self.prio = list(range(n))
            rng.shuffle(self.prio)
            self.change = sorted(policy.get("change_points", ()))
            self._low = -1
            self.fcount = [dict() for _ in range(n)]     # events seen per (thread, code object)
            self.stalls_left = policy.get("stalls", 0)
            self.c = policy.get("c", 0.0)
        self.p = policy.get("p", 0.0)

    def is_hot(self, code):
        """Window policy: switching is 32x more likely inside 'hot' functions - either the fixed
        list of functions that touch shared or call-spanning state on the current tree, or
        (salted runs) a pseudo-random 1/6 of all function names, so that state introduced by a
        change in any other function gets the same treatment."""
        h = self._hot.get(code)
        if h is None:
            salt = self.policy.get("salt")
            if salt is None:
                h = code.co_name in WINDOW
            else:
                import zlib
                h = zlib.crc32(("%s:%s" % (salt, code.co_name)).encode()) % 6 == 0
            self._hot[code] = h
        return h

    # -- choice helpers
    def runnable(self, exclude=None):
        return [i for i in range(self.n) if self.alive[i] and self.blocked[i] is None and i != exclude]

    def _finish(self):
        self.finished = True
        try:
            self.done_lock.release()
        except RuntimeError:
            pass

    def _record(self, frm, to, reason, code, offset):
        name = code.co_name if code is not None else "-"
        self.switches.append([self.step, frm, to, reason, name, offset if offset is not None else -1])
        if reason == "preempt":
            self.sites.add((name, offset))
            if name in WINDOW or (self.policy["kind"] == "window" and self.is_hot(code)):
                self.window_switches += 1
            if self.in_call[frm] and self.in_call[to]:
                self.overlap += 1

    def _handover(self, frm, to):
        self.current = to
        self.sems[to].release()
        self.sems[frm].acquire()

    # -- the pre-emption point
    def step_event(self, tid, code, offset):
        if self.finished:
            self.sems[tid].acquire()    # run is over (deadlock/budget): park for good
        self.step += 1
        self.tsteps[tid] += 1
        if offset == 2:     # first instruction after RESUME: function entry (reach probes only)
            self.entry_probe(tid, code)
        if self.step > self.budget:
            self.outcome = "step-budget"
            self._finish()
            self.sems[tid].acquire()
        to = self.hold_decide(tid, code, offset) if self._hold_on else None
        if to is None:
            if self.gran_line and offset not in _line_starts(code):
                return
            self._offset = offset
            to = self.decide(tid, code)
        if to is not None and to != tid:
            # everything a RecursionError could interrupt (Python-level calls) comes first ...
            self._record(tid, to, "preempt", code, offset)
            # ... and the hand-over itself is C calls only
            self.current = to
            self.sems[to].release()
            self.sems[tid].acquire()

    def entry_probe(self, tid, code):
        name = code.co_name
        if name == "_process_atom_selfies_no_cache":
            self.miss_calls += 1
            try:
                sym = sys._getframe(3).f_locals.get("symbol")
            except Exception:
                sym = None
            if sym is not None and any(m == sym for i, m in enumerate(self.missing) if i != tid):
                self.double_miss += 1
            self.missing[tid] = sym
        elif name == "process_atom_symbol":
            self.missing[tid] = None
        elif name == "_find_augmenting_path":
            self.in_aug[tid] = True
            if sum(self.in_aug) > 1:
                self.double_aug += 1
        elif name in ("encoder", "decoder"):
            self.in_aug[tid] = False

    def hold_decide(self, tid, code, offset):
        """Check-then-act forcing (policy 'shared' with hold): a thread about to rebind a global it
        has tested (`if _X is None: _X = make()`) is parked in front of the store until another
        thread has made the same test - or nobody else can run - and is then woken at once, so that
        both act on the stale test.  Works at instruction granularity whatever the run's own."""
        ra = self._release_after.get(tid)
        if ra is not None:
            if ra[1] > 0:
                ra[1] -= 1
            else:
                del self._release_after[tid]
                t = ra[0]
                if t in self._held and self.alive[t] and self.blocked[t] is None:
                    del self._held[t]
                    return t
        ent = _CTA.get(code)
        if ent is None:
            return None
        ent = ent.get(offset)
        if ent is None:
            return None
        key = (code.co_filename, ent[1])
        if ent[0] == "act2":
            # about to touch a second shared container after a first one: parked until another
            # thread has looked at the first one and gone on for a while (the two are inconsistent)
            key = ("2",) + key
        if ent[0] == "wr":
            # a write to a shared container, the k-th such write of this thread (k per run: 1, 2 or 5):
            # parked in the middle of filling it until another thread has looked at it and gone on
            self._wr_count[tid] += 1
            if self._wr_count[tid] == self.policy.get("hold_k", 2):
                key = ("2",) + key
            else:
                ent = ("check", ent[1])
        if ent[0] in ("act", "act2", "wr"):
            if self._holds[tid] < 2 and key not in self._held_keys:
                cands = [c for c in self.runnable(exclude=tid) if c not in self._held]
                if cands:
                    self._holds[tid] += 1
                    self._held[tid] = key
                    self._held_keys.add(key)      # one parked thread per global and run: the second one must get through
                    self.holds_fired += 1
                    return self.rng.choice(cands)
        else:
            if tid not in self._release_after:
                for t, k in self._held.items():
                    if t != tid and k == key:
                        self._release_after[tid] = [t, 0]
                        break
                    if t != tid and k == ("2",) + key:
                        self._release_after[tid] = [t, self.policy.get("hold_delay", 40)]
                        break
        return None

    def decide(self, tid, code):
        if self.explicit is not None:
            sw = self.explicit["switches"]
            while self._xi < len(sw) and sw[self._xi][0] < self.step:
                self._xi += 1
            if self._xi < len(sw) and sw[self._xi][0] == self.step:
                to = sw[self._xi][1]
                self._xi += 1
                if to != tid and to < self.n and self.alive[to] and self.blocked[to] is None:
                    return to
            return None
        kind = self.policy["kind"]
        if self.exc_q:
            # fault "thread stalls inside an exception path": at a pre-emption point shortly after it
            # raised, unwound a frame or entered a handler, the thread is parked; it comes back at a
            # random later point of the others' execution (or when nobody else can run)
            if self._parked_exc and self.rng.random() < self.exc_release:
                t = self._parked_exc.pop(self.rng.randrange(len(self._parked_exc)))
                self._held.pop(t, None)
                if t != tid and self.alive[t] and self.blocked[t] is None:
                    return t
            w = self.exc_window[tid]
            if w:
                self.exc_window[tid] = w - 1
                if self.rng.random() < self.exc_q:
                    cands = [c for c in self.runnable(exclude=tid) if c not in self._held]
                    if cands:
                        self.exc_window[tid] = 0
                        self._held[tid] = ("exc",)
                        self._parked_exc.append(tid)
                        self.exc_parks += 1
                        return self.rng.choice(cands)
        if kind == "stall":
            # "slow node" fault: the running thread is stalled (priority below everyone, PCT style)
            # at an event drawn with probability c / (events it has spent in this function so far),
            # so rarely executed code gets as much stall mass as hot loops
            fc = self.fcount[tid]
            k = fc.get(code, 0) + 1
            fc[code] = k
            if self.stalls_left and self.rng.random() * k < self.c:
                self.stalls_left -= 1
                self.prio[tid] = self._low
                self._low -= 1
                self.stalls_fired += 1
            cands = self.runnable()
            best = max(cands, key=lambda i: self.prio[i])
            return best if best != tid else None
        if kind == "shared":
            # pre-empt right before an access to process-wide mutable state (see compute_shared_sites)
            offs = self._shared.get(code)
            if offs is not None and self._offset in offs:
                if self.rng.random() < self.policy["q"]:
                    cands = [c for c in self.runnable(exclude=tid) if c not in self._held]
                    if cands:
                        self.shared_switches += 1
                        return self.rng.choice(cands)
            elif self.rng.random() < self.p:
                cands = [c for c in self.runnable(exclude=tid) if c not in self._held]
                if cands:
                    return self.rng.choice(cands)
            return None
        if kind == "pct":
            if self.change and self.step >= self.change[0]:
                self.change.pop(0)
                self.prio[tid] = self._low
                self._low -= 1
            cands = self.runnable()
            best = max(cands, key=lambda i: self.prio[i])
            return best if best != tid else None
        p = self.p
        if kind == "window" and self.is_hot(code):
            p = min(0.5, p * 32)
        if self.rng.random() < p:
            cands = [c for c in self.runnable(exclude=tid) if c not in self._held] if self._held else self.runnable(exclude=tid)
            if cands:
                return self.rng.choice(cands)
        return None

    # -- thread exit / blocking
    def pick_next(self, tid):
        cands = self.runnable(exclude=tid)
        if not cands:
            return None
        if self.explicit is not None:
            ex = self.explicit["exits"]
            if self._ei < len(ex):
                to = ex[self._ei]
                self._ei += 1
                if to in cands:
                    return to
            return cands[0]
        if self.policy["kind"] in ("pct", "stall"):
            return max(cands, key=lambda i: self.prio[i])
        if self._held:
            free = [c for c in cands if c not in self._held]
            if free:
                return self.rng.choice(free)
            for c in cands:
                self._held.pop(c, None)       # nobody else can run: the parked threads go on
                if c in self._parked_exc:
                    self._parked_exc.remove(c)
        return self.rng.choice(cands)

    def thread_exit(self, tid):
        self.alive[tid] = False
        nxt = self.pick_next(tid)
        self.exits.append(nxt if nxt is not None else -1)
        if nxt is None:
            if any(self.alive):
                self.outcome = "deadlock"
            self._finish()
        else:
            self._record(tid, nxt, "exit", None, None)
            self.current = nxt
            self.sems[nxt].release()

    def block(self, tid, lock, timed=False):
        """The running thread waits for `lock` (a lock, event, condition token ...).  Returns True
        when it has been rescheduled; with timed=True returns False instead of declaring a deadlock
        when nobody else can run (the wait's time-out elapses in simulated time)."""
        self.blocked[tid] = lock
        nxt = self.pick_next(tid)
        if nxt is None:
            if timed:
                self.blocked[tid] = None
                return False
            self.outcome = "deadlock"
            self._finish()
            self.sems[tid].acquire()    # parked for good
        self._record(tid, nxt, "block", None, None)
        self._handover(tid, nxt)
        return True

    def unblock(self, lock):
        for i in range(self.n):
            if self.blocked[i] is lock:
                self.blocked[i] = None

    def first(self):
        cands = self.runnable()
        if self.explicit is not None:
            to = self.explicit.get("first", cands[0])
            return to if to in cands else cands[0]
        if self.policy["kind"] in ("pct", "stall"):
            return max(cands, key=lambda i: self.prio[i])
        return self.rng.choice(cands)


# ---------------------------------------------------------------------------
# one run (inside the forked child)
# ---------------------------------------------------------------------------

def interp_state():
    """Process-global interpreter settings a library call has no business leaving changed: code that
    toggles one of them around its own work is safe serially and races with itself in threads."""
    import decimal
    import gc
    import locale
    return {
        "recursionlimit": sys.getrecursionlimit(),
        "switchinterval": sys.getswitchinterval(),
        "warnings.filters": [(f[0], getattr(f[2], "__name__", str(f[2]))) for f in warnings.filters],
        "gc": (gc.isenabled(), gc.get_threshold()),
        "decimal.prec": decimal.getcontext().prec,
        "locale": locale.setlocale(locale.LC_ALL),
        "cwd": os.getcwd(),
        "stack_size": threading.stack_size(),
        "int_max_str_digits": sys.get_int_max_str_digits(),
    }


def run(sf, spec):
    """spec: dict(table=K, threads=[[call, ...], ...], policy=..., seed=str,
    explicit=None|{...}, budget=int, probes=[call, ...]) -> record."""
    global _S
    warnings.simplefilter("ignore")
    # the cyclic garbage collector is one more scheduler: when it runs depends on allocation counts
    # inherited from the parent process, and what it finalises (abandoned generators of the library,
    # closed with GeneratorExit) executes library code in whichever thread happens to run.  It is
    # switched off for the run and called at fixed points instead (after every call of a thread).
    import gc
    gc.collect()
    gc.disable()
    if spec["policy"].get("gran") == "native-line":
        native_line_mode()
    from .calls import outcome, parse_arg
    warm = spec.get("warm")
    if warm:
        # history before the concurrent phase: the process has served calls under another table, then
        # the table was changed (once, before any thread starts) - caches are warm and were filled
        # under the earlier table
        apply_table(sf, tuple(warm[0]) if warm[0] else None)
        for c in warm[1]:
            do_call(sf, tuple(c))
        apply_table(sf, spec["table"] if spec["table"] else ("preset", "default"))
    else:
        apply_table(sf, spec["table"])
    for lit in spec.get("pre", ()):
        # fault in the history before the concurrent phase: a configuration update that is rejected
        # (the table stays fixed); whatever it leaves behind is part of the state the threads meet
        outcome(sf.set_semantic_constraints, parse_arg(lit))
    n = len(spec["threads"])
    rng = random.Random(spec["seed"]) if spec.get("explicit") is None else None
    S = Sched(n, spec["policy"], rng, spec.get("explicit"), spec["budget"])
    results = [[None] * len(calls) for calls in spec["threads"]]

    def body(tid):
        S.sems[tid].acquire()
        _tl.tid = tid
        try:
            for j, call in enumerate(spec["threads"][tid]):
                S.in_call[tid] = True
                results[tid][j] = do_call(sf, tuple(call))[:2]
                gc.collect()
                S.in_call[tid] = False
        except BaseException as e:
            S.harness_error = "thread %d: %r" % (tid, e)
        finally:
            _tl.tid = None
            S.thread_exit(tid)

    state0 = interp_state()
    threads = [threading.Thread(target=body, args=(i,), daemon=True) for i in range(n)]
    for t in threads:
        t.start()
    _S = S
    first = S.first()
    S.current = first
    S.sems[first].release()
    if not S.done_lock.acquire(True, spec.get("wall", 240.0)):
        S.outcome = "wall-timeout"
    if S.outcome == "ok":
        for t in threads:
            t.join(timeout=10.0)
    _S = None
    state1 = interp_state() if S.outcome == "ok" else state0
    state_diff = {k: [state0[k], state1[k]] for k in state0 if state0[k] != state1[k]}
    # after quiescence: serial probes in the same (now warm, possibly corrupted) process
    after = []
    if S.outcome == "ok":
        for call in spec.get("probes", []):
            after.append(do_call(sf, tuple(call))[:2])
    h = hashlib.sha256()
    h.update(repr(spec["table"]).encode())
    h.update(repr(spec["threads"]).encode())
    h.update(repr(S.switches).encode())
    return {
        "results": results, "after": after, "outcome": S.outcome, "harness_error": S.harness_error,
        "steps": S.step, "tsteps": S.tsteps, "switches": S.switches, "exits": S.exits, "first": first,
        "lock_ops": S.lock_ops, "late": S.late, "window_switches": S.window_switches,
        "overlap": S.overlap, "sites": sorted(S.sites), "miss_calls": S.miss_calls,
        "double_miss": S.double_miss, "double_aug": S.double_aug, "stalls_fired": S.stalls_fired, "shared_switches": S.shared_switches, "holds_fired": S.holds_fired, "exc_parks": S.exc_parks,
        "digest": h.hexdigest(), "state_diff": state_diff,
    }


def run_plain_thread(sf, K, call, pre=()):
    """The call in a thread of its own with all instrumentation removed: tells a library whose
    behaviour depends on the calling thread (a violation) from a harness that perturbs results."""
    from .calls import outcome, parse_arg
    for co in _state.get("codes", ()):
        mon.set_local_events(TOOL, co, 0)
    mon.set_events(TOOL, 0)
    warnings.simplefilter("ignore")
    apply_table(sf, K)
    for lit in pre:
        outcome(sf.set_semantic_constraints, parse_arg(lit))
    box = []
    t = threading.Thread(target=lambda: box.append(do_call(sf, tuple(call))[:2]), daemon=True)
    t.start()
    t.join(60.0)
    return box[0] if box else ("err", "Hang")


def run_alone(sf, K, call, gran="instr", pre=()):
    """One call on one simulated thread, no switching: its step count (for the
    PCT change points and the liveness budget) and its result (must equal the
    uninstrumented oracle's)."""
    rec = run(sf, {"table": K, "threads": [[call]], "policy": {"kind": "random", "p": 0.0, "gran": gran},
                   "seed": "alone", "budget": 10 ** 9, "probes": [], "pre": list(pre)})
    if rec["outcome"] != "ok":
        return None, rec["steps"], rec["harness_error"] or ("outcome:" + rec["outcome"]), {}
    return rec["results"][0][0], rec["steps"], rec["harness_error"], rec["state_diff"]
