"""Engine B, worker side: workload and policy generation, alone-run oracle,
verdict, minimisation over threads / calls / explicit switch list, replay."""
import copy
import json
import time
import os
import random
import re

from . import env, gen, procs, stubs
from . import sched

_W = None
PROP = "C19"


class AloneFailure(Exception):
    """A single call, in a thread of its own, after the run's set-up phase, does not return."""

    def __init__(self, outcome, K, call, gran, pre, detail=None):
        Exception.__init__(self, outcome)
        self.outcome, self.K, self.call, self.gran, self.pre = outcome, K, call, gran, pre
        self.detail = detail or {}

BATCH = 16


class Worker:
    def __init__(self):
        sched.install_lock_seam()            # before selfies is imported
        self.sf = env.import_sut()           # imported, never called here
        sched.instrument()
        # C19 is silent about hash seeds: its oracle interpreter runs under the harness' own seed, so
        # that a hash-seed dependence of the library (a C11 matter) cannot show up here as a
        # difference between the instrumented alone-run and the uninstrumented oracle
        self.oracle = procs.OracleClient(env.HARNESS_HASHSEED)
        self.alone = {}                      # (K, call) -> (result, steps)
        self.alone_changes_state = set()

    def alone_run(self, K, call, gran="instr", pre=()):
        key = (K, call, gran, pre)
        if key not in self.alone:
            res, steps, herr, sdiff = procs.fork_call(sched.run_alone, self.sf, K, call, gran, pre, timeout=600.0)
            if sdiff:
                self.alone_changes_state.add(key)     # the call changes interpreter settings even when run alone
            if herr and herr.startswith("outcome:"):
                raise AloneFailure(herr[8:], K, call, gran, pre)
            if herr:
                raise procs.HarnessError("alone run: " + herr)
            want = self.oracle.query(K, call)
            if not pre and tuple(res) != tuple(want[:2]):
                plain = procs.fork_call(sched.run_plain_thread, self.sf, K, call, pre, timeout=120.0)
                if tuple(plain) == tuple(res):
                    # same outcome without any instrumentation: the library behaves differently in a
                    # thread that did not import it than in the main thread of a fresh interpreter
                    raise AloneFailure("thread_ne_main_thread", K, call, gran, pre,
                                       {"in_a_thread": list(res), "main_thread_of_a_fresh_interpreter": list(want[:2])})
                raise procs.HarnessError(
                    "instrumented alone-run differs from uninstrumented oracle: %r vs %r for %r" % (res, want[:2], call))
            if steps < 1:
                raise procs.HarnessError("alone run saw no pre-emption point for %r" % (call,))
            self.alone[key] = (tuple(res), steps)
        return self.alone[key]

    def run_spec(self, spec):
        return procs.fork_call(sched.run, self.sf, spec, timeout=spec.get("wall", 240.0) + 50.0)

    def close(self):
        self.oracle.close()


def worker():
    global _W
    if _W is None:
        _W = Worker()
    return _W


# ---------------------------------------------------------------------------
# workload generation
# ---------------------------------------------------------------------------

NOVEL_POOL = (
    "[13CH2]", "[Te]", "[Fe+2]", "[=N+1]", "[14C]", "[15NH1]", "[SiH2]", "[=Se]", "[Cu+2]", "[18O]",
    "[C@@H1]", "[C@H1]", "[C@]", "[N@+1]", "[/C]", "[\\C]", "[/N]", "[=Si]", "[Sn]", "[As]", "[=As]",
    "[B-1]", "[#C-1]", "[2H]", "[NH3+1]", "[OH1]", "[=13C]", "[Se+1]", "[Zn]", "[Al]", "[=Te]", "[PH1]",
    "[S@@]", "[CH1]", "[=CH1]", "[Ge]", "[GeH2]", "[Xe]", "[Kr]", "[Mg]", "[Ca+2]", "[I+1]", "[Cl+3]",
    "[N-1]", "[O-1]", "[S-1]", "[P+1]", "[=P+1]", "[=O+1]", "[C+1]", "[=C-1]", "[CH5]", "[FH2]")
RINGY = ("[Ring1]", "[=Ring1]", "[Ring2]", "[#Ring1]", "[-/Ring1]", "[\\/Ring1]")
IDX = stubs.INDEX_ALPHABET
SMILES_CONC = (
    "c1ccccc1", "c1ccc2ccccc2c1", "c1ccncc1", "c1cc[nH]c1", "c1ccsc1", "Cn1cnc2c1c(=O)n(C)c(=O)n2C",
    "O=C1c2ccccc2C(=O)N1", "c1ccc2c(c1)[nH]c1ccccc12", "c1ccc(cc1)-c1ccccc1", "C1=CC=CC=C1",
    "N[C@@H](C)C(=O)O", "C[C@]1(F)CCCO1", "[C@H]1(F)(Cl)CCC1", "O=C(O)[C@@H]1CCCN1", "F/C=C/F", "F/C=C\\F",
    "C/C=C/C=C/C", "C12C3C4C1C5C2C3C45", "C1CC1C2CC2", "C%10CC%10", "[Fe+2].[O-]C", "[Na+].[Cl-]",
    "C1CC1.C1CC1.c1ccccc1", "[13CH4]", "[2H]O[2H]", "[O-][N+](=O)c1ccccc1", "S(F)(F)(F)(F)(F)F",
    "[Te]1C=CC=C1", "c1cc[se]c1", "[SiH2]1CCCC1", "[Cu+2].[18O]", "C[S@](=O)N", "[NH4+]", "c1ccc[nH+]c1",
    "C:C:C:C", "C1:C:C:C:C:C:1", "C:C:C", "N:C:C:N", "CC:CC", "[CH3:1][CH2:2]O", "C1CCCCCCCCCCCCCCCCCC1",
    "C(CCCCCCCCCCCCCCCCCCC)(F)Cl", "F/C=C/C=C\\C=C/Cl", "C[C@H]1CC[C@@H](C)CC1", "O[C@@H]1CC[C@]21CCC2", "[H]C([H])([H])[H]",
    "C%11CC%11C%12CC%12", "C(", "C1CC", "cc", "c1cccc1", "[Xx]", "C(F)(F)(F)(F)F", "C=C=C=C", "[nH]1cccc1", "c1cocc1C#N")


# aromatic systems on which the library's greedy matching is not perfect, so
# kekulization runs the augmenting-path search (found by offline search)
AUG_SMILES = (
    "c12c3ccc1cc2c3", "c12c3c1c2c3c4cc4", "c12c3c1c2cc4cc34", "c12c3c4c1cc3c4c2", "c12c3cc4c1cc4c23",
    "c12c3ccc1cc2ccc3", "c12c3c1c2cc4c3ccc4", "c12c3cc4c1c3ccc4c2", "c12c3cc4c1ccc3c4c2", "c12c3cc4c3c4ccc1c2",
    "c12c3ccc1cc2c3.c12c3ccc1cc2ccc3", "c12c3cc4c1cc4c2cc3", "c12c3ccc1c(F)c2c3", "c12c3ccc1cc2c3.CC",
    "OCc1c2c3ccc2cc1c3"[:0] or "c12c3ccc1cc2c3")


DEC_FEATURES = ("novel", "multi_index", "ring1", "branch1", "organic", "charged_h", "stereo", "big_ring", "nested", "compat")
SMI_THEMES = ("mixed", "kekulize", "stereo", "molgen", "kekulize", "failing", "decode", "fragments")


def _chunk(rng, feat, novel, pairs):
    if feat == "novel":
        return rng.choice(novel)
    if feat == "multi_index":      # 2-3 index symbols are read: Q = base-16 number
        sym = rng.choice(("[Branch2]", "[=Branch2]", "[Ring2]", "[=Ring2]", "[Branch3]", "[Ring3]", "[#Branch2]"))
        k = 3 if sym.endswith("3]") else 2
        return sym + "".join(rng.choice(IDX) for _ in range(k))
    if feat == "ring1":
        return rng.choice(RINGY) + rng.choice(IDX[:6])
    if feat == "branch1":
        return rng.choice(gen.BRANCH[:3]) + rng.choice(IDX[:6])
    if feat == "organic":
        return rng.choice(gen.ORG_SYMS[:14])
    if feat == "charged_h":
        return rng.choice(pairs)
    if feat == "stereo":
        return rng.choice(("[/C]", "[\\C]", "[/N]", "[\\O]", "[C@@H1]", "[C@H1]", "[C@]", "[-/Ring1][Ring1]",
                           "[\\/Ring1][Ring2]", "[/C@@H1]", "[=C]", "[/F]", "[\\Cl]"))
    if feat == "big_ring":         # a ring / branch spanning more than 16 atoms
        n = rng.randint(17, 40)
        body = "".join(rng.choice(("[C]", "[C]", "[N]", "[O]", "[=C]")) for _ in range(n))
        q = n - 2
        return body + rng.choice(("[Ring2]", "[=Ring2]")) + IDX[q // 16] + IDX[q % 16]
    if feat == "compat":           # pre-2.0 symbols: decoded with compatible=True (see gen_spec)
        if rng.random() < 0.6:     # the ones that go through the symbol update table
            return rng.choice(("[Branch1_1]", "[Branch1_2]", "[Branch1_3]", "[Branch2_2]", "[Branch3_3]", "[Expl=Ring1]",
                               "[Expl#Ring1]", "[Expl=Ring2]", "[Expl/Ring1]", "[Expl\\Ring2]", "[Expl=Ring3]")) + rng.choice(IDX[:4])
        return rng.choice(gen.COMPAT)
    if feat == "nested":
        return "[Branch1][Branch1][C][Branch1][C][F][C]" if rng.random() < 0.5 else "[Branch2][Ring1][C][C][Branch1][Ring1][=O][C][N]"
    raise ValueError(feat)


def flood_string(rng, n):
    """n distinct never-seen atom symbols: grows (or, in changed code, overflows) the symbol cache."""
    el = rng.choice(("C", "N", "O", "S", "P", "B"))
    off = rng.randrange(1, 300)
    syms = ["[%d%s]" % (off + i, el) for i in range(n)]
    if rng.random() < 0.5:
        syms.reverse()
    return "".join(syms)


def corpus(rng, b=0):
    """Inputs of batch number b.  Swarm: each batch switches on a few input
    features and makes its strings dense in them, so that two threads are
    likely to be inside the same rarely used code at the same time; strings
    collide on shared state (same novel symbols, same uncached (element,
    charge) pairs, same aromatic topologies)."""
    novel = rng.sample(NOVEL_POOL, rng.randint(3, 7))
    pairs = ["[%s%+d]" % (rng.choice(stubs.ELEMENTS), rng.choice((1, 2, 3, -1, -2))) for _ in range(6)]
    pairs += ["[%sH%d]" % (rng.choice(("C", "N", "Si", "P", "S", "B", "Ge")), rng.randint(1, 4)) for _ in range(4)]
    feats = rng.sample(DEC_FEATURES, rng.randint(2, 4))
    weights = [rng.choice((1, 2, 4)) for _ in feats]
    if b % 2 == 1 and not ({"multi_index", "big_ring"} & set(feats)):
        feats.append(rng.choice(("multi_index", "big_ring")))     # multi-symbol indices in every other batch
        weights.append(4)
    if "organic" not in feats:
        feats.append("organic")
        weights.append(2)
    dec = []
    for _ in range(8):
        target = rng.choice((3, 5, 8, 12, 20, 30, 45))      # symbols, not chunks
        s = ""
        while s.count("[") < target:
            s += _chunk(rng, rng.choices(feats, weights)[0], novel, pairs)
        if rng.random() < 0.2:
            s += "." + "".join(rng.choice(novel + list(gen.ORG_SYMS[:6])) for _ in range(rng.randint(1, 6)))
        if rng.random() < 0.12:
            s += rng.choice(gen.INVALID)          # a failing call next to succeeding ones
        dec.append(s)
    if b % 3 == 1:
        # a call that fails *inside* first-sight symbol parsing (int() refuses > 4300 digits): whatever
        # that code path holds (a lock, a half-made cache entry) when it raises stays behind for the others
        dec[rng.randrange(3, 8)] = "".join(novel[:2]) + "[C]" + gen.HUGE_ISOTOPE + "[O]"
    # the same novel symbols in every string's head: first-sight races
    dec.append("".join(novel) + "[C][Ring1][Ring1]")
    dec.append("[C]" + "".join(reversed(novel)) + "[=C][F]")
    # themes are stratified over batch numbers (not drawn), so that every tier sees all of them
    flood = (b % 12 == 3) if procs.TIER == "quick" else (b % 8 == 3)
    if flood:
        dec[0] = flood_string(rng, rng.choice((300, 530, 700)))
        dec[1] = flood_string(rng, rng.choice((300, 530)))
    theme = SMI_THEMES[b % len(SMI_THEMES)]
    if theme == "kekulize":
        smi = rng.sample(AUG_SMILES, 5) + rng.sample(SMILES_CONC[:10], 3)
    elif theme == "stereo":
        smi = [x for x in SMILES_CONC if "@" in x or "/" in x or "%" in x] + [rng.choice(AUG_SMILES)]
    elif theme == "fragments":     # every input has several '.'-separated fragments
        parts = ("CC", "O", "N", "[Na+]", "[Cl-]", "CCO", "c1ccccc1", "C1CC1", "C[Si]CF", "CC(N)C", "[O-]C", "F", "C=O", "C#N")
        smi = [".".join(rng.choice(parts) for _ in range(rng.randint(2, 5))) for _ in range(8)]
    elif theme == "failing":
        # calls that raise somewhere in the middle of parsing, next to calls that succeed: whatever
        # a failure path cleans up, hands back or resets is in use by somebody else
        smi = list(rng.sample(("C(", "C1CC", "cc", "c1cccc1", "[Xx]", "C)", "C1CC2", "C=", "c1ccc1"), 3))
        smi += [gen.derive_failing_smiles(rng) for _ in range(3)]
        smi += rng.sample([x for x in SMILES_CONC if x not in gen.SMILES_BAD], 5)
        for k in rng.sample(range(len(dec)), 3):
            dec[k] = dec[k] + rng.choice(gen.INVALID)
    elif theme == "molgen":
        smi = [rng.choice(AUG_SMILES), rng.choice(SMILES_CONC)]
    else:
        smi = rng.sample(SMILES_CONC, 6) + [rng.choice(AUG_SMILES)]
    data = gen.dataset_smiles()
    if data and theme != "fragments":
        smi += rng.sample(data, 3 if theme != "mixed" else 8)      # real molecules: long strings, many features
    for _ in range(8 if theme == "molgen" else (0 if theme == "fragments" else 3)):
        K = [gen.DEFAULT]
        m = stubs.gen_mol(rng, K, rng.choice((6, 10, 14))) if rng.random() < 0.6 else stubs.gen_aromatic_mol(rng, K)
        smi.append(m.smiles(rng))
    p_dec = {"kekulize": 0.15, "decode": 1.0, "fragments": 0.15, "failing": 0.25}.get(theme, rng.choice((0.3, 0.5, 0.6, 0.9)))
    deep = (b % 40 == 5) if procs.TIER == "quick" else (b % 8 == 5)
    medium = (b % 24 == 6) if procs.TIER == "quick" else (b % 8 == 6)
    if medium:
        # nesting that one call handles easily but several calls together do not, if they share a budget
        m = rng.choice((320, 470))
        smi.append("C(" * m + "C" + ")C" * m)
        smi.append("O(" * (m - 7) + "N" + ")C" * (m - 7))
    if deep:
        # nesting far beyond the interpreter's recursion limit: every such call raises RecursionError
        # when run alone on the current tree; process-global interpreter settings that a change
        # toggles around its own recursion are then visible as a difference between threads
        n = rng.choice((1150, 1300))
        smi[0] = "C(" * n + "C" + ")C" * n
        smi[1] = "N(" * (n + 100) + "C" + ")O" * (n + 100)
        dec[2] = "[C]" + "[Branch1][P][C]" * (n + 100)
        p_dec = 0.4
    if flood:
        p_dec = max(p_dec, 0.8)
    # the two directions meet in the symbol tables: decoder inputs spelt with the very atom symbols
    # that encoding this batch's SMILES produces (bracket atoms, normalised the way the encoder does)
    both = sorted({_as_selfies_symbol(m) for x in smi if len(x) < 400 for m in re.findall(r"\[[^\]]+\]", x)} - {None})
    if both:
        for _ in range(2):
            pick = rng.sample(both, min(len(both), rng.randint(1, 4)))
            dec.append("[C]" + "".join(pick) + rng.choice(("[C]", "[=O]", "[Ring1][C]", "")))
    pairs = []
    for x in smi:
        if len(x) < 200:
            syms = [y for y in (_as_selfies_symbol(m) for m in re.findall(r"\[[^\]]+\]", x)) if y]
            if syms:
                pairs.append((x, "[C]" + "".join(syms[:3]) + "[C]"))
    info = {"features": feats, "smiles_theme": theme, "flood": flood, "p_dec": p_dec, "deep": deep, "medium": medium,
            "pairs": pairs[:6]}
    return dec, smi, info


_SMI_ATOM = re.compile(r"\[(\d*)([A-Za-z][a-z]?)(@{0,2})(H\d*)?([+-]+\d*)?(?::\d+)?\]$")


def _as_selfies_symbol(atom):
    """SMILES bracket atom -> the SELFIES symbol the encoder writes for it (isotope, element in upper
    case, chirality, H count as H<n>, charge as +n / -n).  Approximate on purpose: a wrong guess is
    just another novel symbol."""
    m = _SMI_ATOM.match(atom)
    if not m:
        return None
    iso, el, chi, h, ch = m.groups()
    el = el[0].upper() + el[1:]
    out = "[" + iso + el + chi
    if h:
        out += "H" + (h[1:] or "1")
    if ch:
        sign = ch[0]
        n = ch.lstrip("+-")
        n = int(n) if n else len(ch)
        out += "%s%d" % (sign, n)
    return out + "]"


def gen_table(rng):
    u = rng.random()
    if u < 0.35:
        return None
    if u < 0.6:
        return ("preset", rng.choice(stubs.PRESET_NAMES))
    fam = rng.choice(("tweak", "small", "large"))
    return ("lit", gen.lit(gen.gen_table(rng, fam, gen.DEFAULT)))


def gen_spec(base_seed, i, W):
    """Runs i // 16 share table and corpus (so alone-results are computed once
    per batch); threads, calls, flags, policy and schedule vary per run."""
    crng = random.Random("%d:schedsim:corpus:%d" % (base_seed, i // 16))
    K = gen_table(crng)
    dec, smi, info = corpus(crng, i // 16)
    p_dec = info["p_dec"]
    theme = info["smiles_theme"]
    rng = random.Random("%d:schedsim:run:%d" % (base_seed, i))
    n = rng.choice((2, 2, 2, 3, 3, 4) if procs.TIER == "quick" else (2, 2, 3, 3, 4, 5, 6))
    if theme == "fragments":
        n = rng.choice((3, 3, 4))
    shared_first = rng.random() < 0.5     # several threads start with the very same call
    first = None
    threads = []
    for t in range(n):
        calls = []
        ncalls = rng.choice((1, 1, 2, 2, 3, 4) if procs.TIER == "quick" else (1, 2, 2, 3, 4, 6))
        if theme == "failing":
            ncalls = max(ncalls, 3)       # calls that start while another thread is inside a failure path
        for j in range(ncalls):
            if rng.random() < p_dec:
                x = rng.choice(dec)
                if info["flood"] and rng.random() < (0.7 if j == 0 else 0.12):
                    x = dec[rng.randrange(2)]      # several flood calls per run: several cache overflows
                old_syms = "expl]" in x or "_" in x or "[Expl" in x
                call = ("decode", x, rng.random() < (0.85 if old_syms else 0.08), rng.random() < 0.3)
            else:
                call = ("encode", rng.choice(smi), rng.random() < 0.6, rng.random() < 0.3)
            if info["medium"] and call[0] == "encode" and len(call[1]) > 1200 and not (j == 0 and i % 16 < 8):
                call = ("encode", smi[0], call[2], call[3])      # the expensive nested inputs only as first calls of half the runs
            if info["medium"] and j == 0 and i % 16 < 8 and rng.random() < 0.8:
                call = ("encode", smi[-1 - (t + rng.randrange(2)) % 2], False, False)
            if info["deep"] and j == 0 and rng.random() < 0.6 and (procs.TIER != "quick" or i % 16 < 4):
                call = rng.choice((("encode", smi[0], False, False), ("encode", smi[1], rng.random() < 0.5, False),
                                   ("decode", dec[2], False, False)))
            if shared_first and j == 0:
                if first is None:
                    first = call
                elif rng.random() < 0.75:
                    # same input; flags may differ (attribution on/off shares all other state)
                    call = first if rng.random() < 0.5 else (first[0], first[1], first[2], rng.random() < 0.5)
            calls.append(call)
        threads.append(calls)
    if info.get("pairs") and i % 16 in (4, 12) and not (info["deep"] or info["medium"]):
        # one encoder and one decoder call that meet on the same, so far unseen, atom symbols
        x, y = info["pairs"][rng.randrange(len(info["pairs"]))]
        threads[0][0] = ("encode", x, rng.random() < 0.3, False)
        threads[1][0] = ("decode", y, False, rng.random() < 0.2)
    # runs with deep-nesting inputs are pre-empted at source lines (native LINE events): a change
    # that lets such inputs succeed makes them quadratic, which bytecode events cannot afford
    gran = "native-line" if any(c[1].count("(") > 250 or c[1].count("[Branch1][P]") > 250
                                for calls in threads for c in calls) else None
    pre = ()
    if i % 4 == 3:
        while True:     # a rejected update before the threads start (only unambiguously invalid ones)
            bk, blit = gen.gen_bad_set(rng, gen.DEFAULT)
            if bk in ("no_q", "bad_key", "bad_value", "bad_preset", "bad_arg"):
                break
        pre = (blit,)
    alone = [[W.alone_run(K, c, gran or "instr", pre) for c in calls] for calls in threads]
    total = sum(s for calls in alone for _, s in calls)
    kind = ("random", "window", "stall", "pct", "shared", "window", "stall", "shared")[i % 8]     # stratified
    policy = {"kind": kind, "gran": rng.choice(("instr", "instr", "line"))}
    if gran:
        policy["gran"] = gran
    if kind == "shared":
        policy["q"] = rng.choice((0.15, 0.4, 0.8))
        policy["p"] = rng.choice((0.0, 1 / 2000))
        policy["hold"] = rng.random() < 0.5       # check-then-act forcing on rebound globals
        policy["hold_delay"] = (10, 40, 200, 1000)[i % 4]
    elif kind == "stall":
        policy["c"] = rng.choice((1 / 100, 1 / 300, 1 / 1000))   # about 2 / 0.7 / 0.2 expected stall opportunities per run
        policy["stalls"] = rng.choice((1, 1, 2, 3))
    elif kind == "pct":
        d = rng.choice((1, 2, 3))
        policy["change_points"] = sorted(rng.randrange(1, max(2, total)) for _ in range(d))
    else:
        if kind == "window" and rng.random() < 0.5:
            policy["salt"] = rng.randrange(1 << 20)
        policy["p"] = rng.choice((0.25, 1 / 8, 1 / 32, 1 / 128, 1 / 512))
        # bound the expected number of context switches per run (they dominate the cost): ~4000
        budget_sw = 20000.0 if info["flood"] else 4000.0     # flood runs: the eviction race needs dense switching
        cap = (budget_sw if kind == "random" else budget_sw / 16) / max(total, 1)
        policy["p"] = min(policy["p"], cap)
    if kind in ("random", "window"):
        policy["hold"] = rng.random() < 0.5
        policy["hold_delay"] = (10, 40, 200, 1000)[i % 4]
    if policy.get("hold"):
        policy["hold_k"] = (1, 2, 5)[(i // 4) % 3]
    if kind in ("random", "window", "shared"):
        policy["exc_q"] = rng.choice((0.0, 0.1, 0.3, 0.3)) if theme == "failing" else rng.choice((0.0, 0.0, 0.1, 0.3))
        policy["exc_release"] = rng.choice((1 / 50, 1 / 300, 1 / 2000))
    probes = []
    seen = set()
    for calls in threads:
        for c in calls:
            if c not in seen:
                seen.add(c)
                probes.append(c)
    probes = probes[:6] + [("decode", dec[-2], False, False), ("decode", dec[-1], False, True)]
    spec = {"table": K, "threads": threads, "policy": policy, "seed": "%d:schedsim:sched:%d" % (base_seed, i),
            "budget": 50 * total + 20000, "probes": probes, "theme": theme, "info": info,
            "wall": 600.0 if gran else 240.0, "pre": list(pre)}
    if i % 16 == 13 and not gran and not info["flood"]:
        # warm start: the same calls were served once, serially, under another table before the
        # table in force was set (a rng of its own: the rest of the run is what it was)
        wrng = random.Random("%d:schedsim:warm:%d" % (base_seed, i))
        K0 = gen_table(wrng)
        if K0 != K:
            spec["warm"] = [list(K0) if K0 else None, [list(c) for c in probes[:4]]]
    return spec, alone


# ---------------------------------------------------------------------------
# verdict
# ---------------------------------------------------------------------------

def judge(W, spec, rec):
    """-> None or dict(class, detail).  Every call's result must equal its
    alone-result; afterwards the serial probes must equal the oracle's."""
    if rec["harness_error"]:
        raise procs.HarnessError("scheduler: " + rec["harness_error"])
    if rec["outcome"] == "wall-timeout":
        raise procs.HarnessTimeout("simulated run did not finish")
    if rec["outcome"] in ("deadlock", "step-budget"):
        return {"class": rec["outcome"], "detail": {"steps": rec["steps"], "budget": spec["budget"]}}
    K = spec["table"]
    if rec.get("state_diff"):
        # all calls have returned, yet a process-global interpreter setting is not what it was - although
        # each of the calls, run alone, leaves the settings as it found them
        g = "native-line" if spec["policy"].get("gran") == "native-line" else "instr"
        pre = tuple(spec.get("pre", ()))
        for calls in spec["threads"]:
            for c in calls:
                W.alone_run(K, tuple(c), g, pre)
        if not any((K, tuple(c), g, pre) in W.alone_changes_state for calls in spec["threads"] for c in calls):
            return {"class": "interpreter_state_changed", "detail": rec["state_diff"]}
    for t, calls in enumerate(spec["threads"]):
        for j, c in enumerate(calls):
            want, _ = W.alone_run(K, tuple(c), "native-line" if spec["policy"].get("gran") == "native-line" else "instr",
                                  tuple(spec.get("pre", ())))
            got = rec["results"][t][j]
            if got is None or tuple(got) != tuple(want):
                return {"class": "result_ne_alone", "detail": {"thread": t, "call": j, "input": list(c),
                                                               "got": got, "alone": list(want)}}
    for c, got in zip(spec["probes"], rec["after"]):
        want = W.oracle.query(K, tuple(c))
        if tuple(got) != tuple(want[:2]):
            return {"class": "after_ne_oracle", "detail": {"input": list(c), "got": got, "oracle": list(want[:2])}}
    for t, s in enumerate(rec["tsteps"]):
        if s < 1:
            raise procs.HarnessError("thread %d saw no pre-emption point" % t)
    return None


def run_one(base_seed, i, want_sample=False):
    W = worker()
    q0, h0 = W.oracle.queries, W.oracle.hits
    try:
        spec, alone = gen_spec(base_seed, i, W)
    except AloneFailure as e:
        # one thread, one call, nothing concurrent - and it never returns (e.g. a lock the set-up
        # phase left held): the smallest possible schedule is already a violation
        spec = {"table": e.K, "threads": [[e.call]], "policy": {"kind": "explicit", "gran": e.gran},
                "seed": "alone", "budget": 10 ** 9, "probes": [], "pre": list(e.pre), "theme": "alone", "info": {},
                "explicit": {"first": 0, "exits": [], "switches": []}}
        rep = {"violation_class": e.outcome, "violation": {"detail": dict(e.detail, phase="a single call in a thread of its own, after the set-up phase", call=[str(x)[:300] for x in e.call], pre=list(e.pre))},
               "spec": _jsonable(spec), "threads": spec["threads"], "replayable": True, "original_length": 0, "switches": 0,
               "seed": base_seed, "run": i, "engine": "schedsim", "property": PROP}
        procs.request_stop()
        return {"i": i, "digest": "alone-failure-%d" % i, "steps": 0, "nops": 1, "probes": {}, "oracle_queries": 0,
                "oracle_hits": 0, "fault_free": False, "nontrivial": False, "violation": rep}
    use_cold = _COLD_LEFT[0] > 0
    if use_cold:
        # an earlier violation in this worker showed only in children forked from it (an effect of
        # object addresses or allocation order): the next runs are made in freshly started
        # interpreters, where whatever is found replays exactly
        _COLD_LEFT[0] -= 1
        rec = procs.cold_sched(_jsonable(spec), timeout=spec.get("wall", 240.0) + 60.0)
    else:
        rec = W.run_spec(spec)
    v = judge(W, spec, rec)
    preempt = sum(1 for s in rec["switches"] if s[3] == "preempt")
    summary = {
        "i": i, "digest": rec["digest"], "steps": rec["steps"], "nops": sum(len(c) for c in spec["threads"]),
        "context_switches": preempt, "lock_ops": rec["lock_ops"], "late_instrumented": rec["late"],
        "distinct_switch_sites": [tuple(s) for s in rec["sites"]],
        "overlap_runs": 1 if rec["overlap"] else 0,
        "nontrivial": bool(rec["overlap"] and rec["window_switches"]),
        "probes": {"overlap": rec["overlap"], "window_switches": rec["window_switches"],
                   "policy:" + spec["policy"]["kind"] + ":" + spec["policy"]["gran"]: 1,
                   "threads:%d" % len(spec["threads"]): 1, "theme:" + spec["theme"]: 1, "flood_runs": 1 if spec["info"]["flood"] else 0, "deep_nesting_runs": 1 if spec["info"]["deep"] else 0,
                   "fault_rejected_update_before_threads": len(spec.get("pre", ())),
                   **{"feature:" + f: 1 for f in spec["info"]["features"]},
                   "fault_failing_call_in_a_thread": sum(1 for r in rec["results"] for x in r if x and x[0] == "err"),
                   "double_miss_runs": 1 if rec["double_miss"] else 0,
                   "fault_thread_stalled": rec["stalls_fired"], "shared_access_switches": rec["shared_switches"],
                   "fault_thread_held_before_store_of_tested_global": rec.get("holds_fired", 0),
                   "fault_thread_parked_inside_exception_path": rec.get("exc_parks", 0),
                   "warm_start_under_another_table": 1 if spec.get("warm") else 0,
                   "double_augmenting_path_runs": 1 if rec["double_aug"] else 0},
        "oracle_queries": W.oracle.queries - q0, "oracle_hits": W.oracle.hits - h0,
        "fault_free": False, "violation": None,
    }
    if i % 97 == 0:
        c = spec["threads"][0][0]
        if tuple(procs.cold_query(spec["table"], c, env.HARNESS_HASHSEED)[:2]) != tuple(alone[0][0][0]):
            raise procs.HarnessError("cold interpreter disagrees with alone-run for %r" % (c,))
        summary["cold"] = 1
    if want_sample:
        summary["sample"] = {"table": spec["table"], "threads": spec["threads"], "policy": spec["policy"],
                             "steps": rec["steps"], "switches_first_20": rec["switches"][:20],
                             "n_switches": len(rec["switches"])}
    if v is not None and procs.stop_requested():
        summary["unminimised_violation"] = v["class"]     # another worker is already reporting one
    elif v is not None:
        rep = minimise(W, spec, rec, v, cold=use_cold)
        rep.update(seed=base_seed, run=i, engine="schedsim", property=PROP)
        if rep.get("replayable") or use_cold:
            procs.request_stop()
            summary["violation"] = rep
        else:
            # real (this run did differ from the alone-runs) but not exactly replayable: the search
            # goes on in freshly started interpreters; reported, flagged, if nothing better turns up
            rep["not_reproducible_in_a_cold_interpreter"] = True
            summary["weak_violation"] = rep
            _COLD_LEFT[0] = 24
    if use_cold:
        summary["probes"]["runs_in_a_freshly_started_interpreter"] = 1
    return summary


_COLD_LEFT = [0]


def _distinct_novel(spec):
    import re
    syms = set()
    for calls in spec["threads"]:
        for c in calls:
            if c[0] == "decode":
                syms.update(re.findall(r"\[[^\]]*\]", c[1]))
    return len(syms)


# ---------------------------------------------------------------------------
# minimisation / replay: explicit schedules
# ---------------------------------------------------------------------------

def explicit_of(rec):
    return {"first": rec["first"], "exits": [e for e in rec["exits"] if e >= 0],
            "switches": [[s[0], s[2]] for s in rec["switches"] if s[3] == "preempt"]}


def minimise(W, spec, rec, v, budget=300, cold=False):
    """Two passes, like histsim: minimise with candidates run in children forked from this worker
    (fast), then confirm the result in a freshly started interpreter - which is what `sim.replay`
    starts.  If it does not reproduce there (an effect that depends on object addresses or
    allocation order, which a forked child inherits from its long-lived parent), minimise again
    with every candidate in a freshly started interpreter."""
    cls = v["class"]
    spent = [0]
    cur = copy.deepcopy(spec)
    cur["explicit"] = explicit_of(rec)
    cur["policy"] = dict(cur["policy"], kind="explicit")

    steps_left = [40_000_000]       # bound on simulated steps spent minimising (about a minute)
    t_end = time.time() + 240.0

    def run_cand(cand, in_cold):
        if in_cold:
            return procs.cold_sched(_jsonable(cand), timeout=cand.get("wall", 240.0) + 60.0)
        return W.run_spec(cand)

    def fails(cand, in_cold=cold):
        if spent[0] >= budget or steps_left[0] <= 0 or (in_cold and time.time() > t_end):
            return None
        spent[0] += 1
        try:
            r = run_cand(cand, in_cold)
            steps_left[0] -= r["steps"]
            vv = judge(W, cand, r)
        except procs.HarnessError:
            return None
        return (r, vv) if vv and vv["class"] == cls else None

    base = fails(cur)
    if base is None:
        if not cold:
            return minimise(W, spec, rec, v, budget=min(budget, 120), cold=True)
        # not even the recorded schedule reproduces when spelt out (the effect depends on what the
        # scheduler itself allocates): keep the run as it was - seeded policy, unminimised - if that
        # repeats in a freshly started interpreter
        spent[0] = 0
        again = fails(spec, True)
        if again is not None:
            return {"violation_class": cls, "violation": {"detail": again[1]["detail"]}, "spec": _jsonable(spec),
                    "threads": spec["threads"], "replayable": True, "replay_mode": "cold", "unminimised": True,
                    "original_length": len(rec["switches"]), "switches": len(rec["switches"])}
        return {"violation_class": cls, "violation": {"detail": v["detail"]}, "spec": _jsonable(spec),
                "threads": spec["threads"], "replayable": False, "original_length": len(rec["switches"])}
    best = base
    sw = cur["explicit"]["switches"]

    def with_switches(cp):
        cand = copy.deepcopy(cur)
        cand["explicit"]["switches"] = cp
        return cand

    # 1. shortest failing prefix of the switch list (after it, threads run to completion in turn)
    lo, hi = 0, len(sw)          # invariant: prefix of length hi fails
    while lo < hi:
        mid = (lo + hi) // 2
        r = fails(with_switches(sw[:mid]))
        if r:
            hi, best = mid, r
        else:
            lo = mid + 1
    sw = sw[:hi]
    cur = with_switches(sw)
    # 2. longest droppable head: early switches are often irrelevant
    lo, hi = 0, len(sw)          # invariant: dropping the first lo switches still fails
    while lo < hi:
        mid = (lo + hi + 1) // 2
        r = fails(with_switches(sw[mid:]))
        if r:
            lo, best = mid, r
        else:
            hi = mid - 1
    sw = sw[lo:]
    cur = with_switches(sw)
    # 3. ddmin over what is left
    n = 2
    while len(sw) >= 1:
        chunk = max(1, len(sw) // n)
        reduced = False
        for start in range(0, len(sw), chunk):
            cp = sw[:start] + sw[start + chunk:]
            r = fails(with_switches(cp))
            if r:
                sw, best = cp, r
                cur = with_switches(sw)
                n = max(n - 1, 2)
                reduced = True
                break
        if not reduced:
            if chunk == 1:
                break
            n = min(n * 2, len(sw))
    # drop calls that are not needed (their steps shift later switches, so re-check each time)
    for t in range(len(cur["threads"])):
        j = 0
        while j < len(cur["threads"][t]) and len(cur["threads"][t]) > 1:
            cand = copy.deepcopy(cur)
            del cand["threads"][t][j]
            r = fails(cand)
            if r:
                cur, best = cand, r
            else:
                j += 1
    cur["probes"] = cur["probes"]
    if not cold:
        spent[0] = 0
        confirmed = fails(cur, True)
        if confirmed is None:
            again = minimise(W, spec, rec, v, budget=min(budget, 120), cold=True)
            if again.get("replayable"):
                return again
            # reproducible only in children of this worker process: reported, and flagged as such
            best_r, best_v = best
            return {"violation_class": cls, "violation": {"detail": best_v["detail"]}, "spec": _jsonable(cur),
                    "threads": cur["threads"], "replayable": False, "replay_mode": "fork",
                    "original_length": len(rec["switches"]), "switches": len(cur["explicit"]["switches"])}
        best = confirmed
    r, vv = best
    return {"violation_class": cls, "violation": {"detail": vv["detail"]}, "spec": _jsonable(cur),
            "threads": cur["threads"], "replayable": True, "replay_mode": "cold", "original_length": len(rec["switches"]),
            "switches": len(cur["explicit"]["switches"])}


def _jsonable(spec):
    return json.loads(json.dumps(spec))


def _tuplify(spec):
    spec = copy.deepcopy(spec)
    if spec["table"] is not None:
        spec["table"] = tuple(spec["table"])
    spec["threads"] = [[tuple(c) for c in calls] for calls in spec["threads"]]
    spec["probes"] = [tuple(c) for c in spec["probes"]]
    return spec


def replay(rep):
    W = worker()
    spec = _tuplify(rep["spec"])
    try:
        if spec.get("theme") == "alone":      # a single call in a thread of its own
            gran = spec["policy"].get("gran") or "instr"
            W.alone_run(spec["table"], spec["threads"][0][0], gran if gran == "native-line" else "instr",
                        tuple(spec.get("pre", ())))
            v = None
        else:
            r = procs.cold_sched(rep["spec"]) if rep.get("replay_mode") == "cold" else W.run_spec(spec)
            v = judge(W, spec, r)
    except AloneFailure as e:
        v = {"class": e.outcome, "detail": e.detail}
    W.close()
    if v and v["class"] == rep["violation_class"]:
        return True, json.dumps(v["detail"])[:600]
    return False, "got %r" % (v,)


def run_batch(prop, base_seed, indices, sample_every):
    out = []
    for i in indices:
        if procs.stop_requested():
            break
        try:
            out.append(run_one(base_seed, i, want_sample=(i % sample_every == 0)))
            if out[-1].get("violation"):
                procs.request_stop()
        except procs.HarnessTimeout as e:
            out.append({"i": i, "harness": "HARNESS-TIMEOUT", "detail": str(e)})
        except procs.HarnessError as e:
            out.append({"i": i, "harness": "HARNESS-ERROR", "detail": str(e)[-1500:]})
        except Exception:
            import traceback
            out.append({"i": i, "harness": "HARNESS-ERROR", "detail": traceback.format_exc()[-1500:]})
    return os.getpid(), out
