"""python -m sim.selftest [determinism|mutants|seeded|all] [--props C11,C19] [--only substring]

* determinism: many VERIF_SEED values, each batch digest computed with 16
  workers, with 1-3 workers, and under another harness PYTHONHASHSEED in a
  fresh interpreter; all must agree.
* mutants / seeded: every patch under /verif/mutants (hand-written) or
  /verif/seeded/<id>/patch.diff (written by independent sub-agents) is applied
  to a scratch copy of /repo in a mkdtemp directory (removed immediately
  afterwards); the check of the property it breaks must print a VIOLATION
  within its quick budget and the replay file must reproduce in a fresh
  process.
"""
import argparse
import glob
import json
import os
import re
import shutil
import subprocess
import sys
import tempfile
import time

from . import env

PY = sys.executable


def run_check(prop, extra_env, args, timeout=1800):
    e = dict(os.environ)
    for k in ("PYTHONHASHSEED", "VERIF_SCRATCH", "VERIF_SCRATCH_OWNER", "PYTHONPYCACHEPREFIX"):
        e.pop(k, None)
    e.update(extra_env)
    p = subprocess.run([PY, "-m", "sim.check", "--property", prop] + args, cwd=env.VERIF, env=e,
                       stdout=subprocess.PIPE, stderr=subprocess.STDOUT, text=True, timeout=timeout)
    return p.returncode, p.stdout


def determinism(props, seeds, runs):
    bad = 0
    for prop in props:
        for seed in seeds:
            digs = []
            for label, extra, wk in (("w16", {}, "16"), ("w3", {}, "3"), ("hash", {"VERIF_HARNESS_HASHSEED": "12345"}, "7")):
                ee = dict(extra, VERIF_SEED=str(seed))
                code, out = run_check(prop, ee, ["--runs", str(runs), "--digest-only", "--no-evidence", "--workers", wk])
                m = re.search(r"BATCH-DIGEST (\w+) runs=(\d+)", out)
                if code != 0 or not m:
                    print("DETERMINISM-ERROR", prop, seed, label, "exit", code, out[-800:])
                    bad += 1
                    continue
                digs.append((label, m.group(1), m.group(2)))
            ok = len({d[1:] for d in digs}) == 1 and len(digs) == 3
            print("determinism %s seed=%d %s %s" % (prop, seed, "OK" if ok else "DIVERGED", digs[0][1][:16] if digs else ""), flush=True)
            if not ok:
                bad += 1
                print("   ", digs)
    return bad


def scratch_repo(patch, strip):
    d = tempfile.mkdtemp(prefix="selfies-mutant-")
    shutil.copytree(os.path.join(env.REPO, "selfies"), os.path.join(d, "selfies"),
                    ignore=shutil.ignore_patterns("__pycache__"))
    p = subprocess.run(["patch", "-p%d" % strip, "-d", d, "-i", patch, "--no-backup-if-mismatch", "-s"],
                       stdout=subprocess.PIPE, stderr=subprocess.STDOUT, text=True)
    if p.returncode != 0:
        shutil.rmtree(d, ignore_errors=True)
        raise RuntimeError("patch failed: %s\n%s" % (patch, p.stdout))
    return d


def one_mutant(name, prop, patch, strip, tier_args):
    d = scratch_repo(patch, strip)
    rdir = tempfile.mkdtemp(prefix="selfies-replays-")
    t0 = time.time()
    try:
        ee = {"VERIF_REPO": d, "VERIF_REPLAY_DIR": rdir}
        code, out = run_check(prop, ee, tier_args + ["--no-evidence"])
        m = re.search(r"VIOLATION property=(\w+) replay=(\S+)", out)
        cls = re.search(r"class=(\w+)", out)
        status, rcode = "MISSED", None
        if code == 1 and m:
            status = "CAUGHT"
            e2 = dict(os.environ)
            for k in ("PYTHONHASHSEED", "VERIF_SCRATCH", "VERIF_SCRATCH_OWNER", "PYTHONPYCACHEPREFIX"):
                e2.pop(k, None)
            e2.update(ee)
            r = subprocess.run([PY, "-m", "sim.replay", m.group(2)], cwd=env.VERIF, env=e2,
                               stdout=subprocess.PIPE, stderr=subprocess.STDOUT, text=True, timeout=600)
            rcode = r.returncode
            if rcode != 1:
                status = "CAUGHT-BUT-REPLAY-FAILED"
        elif code == 2:
            status = "HARNESS-ERROR"
        print("mutant %-45s %s -> %s%s (%.0fs)" % (name, prop, status, (" class=" + cls.group(1)) if cls else "", time.time() - t0), flush=True)
        if status != "CAUGHT":
            print("    " + "\n    ".join(out.strip().splitlines()[-6:]))
        return status == "CAUGHT"
    finally:
        shutil.rmtree(d, ignore_errors=True)
        shutil.rmtree(rdir, ignore_errors=True)


def mutants(props, only, tier_args):
    missed = 0
    for patch in sorted(glob.glob(os.path.join(env.VERIF, "mutants", "*.diff"))):
        name = os.path.basename(patch)[:-5]
        prop = name.split("-")[0]
        if prop not in props or (only and only not in name):
            continue
        if not one_mutant(name, prop, patch, 1, tier_args):
            missed += 1
    return missed


def seeded(props, only, tier_args):
    missed = 0
    for meta in sorted(glob.glob(os.path.join(env.VERIF, "seeded", "*", "meta.json"))):
        with open(meta) as f:
            m = json.load(f)
        name = os.path.basename(os.path.dirname(meta))
        if only and only not in name:
            continue
        if m.get("detected_by_tier") == "thorough" and "thorough" not in tier_args:
            print("mutant seeded/%-38s skipped (caught by the thorough tier only)" % name, flush=True)
            continue
        for prop in m.get("detected_by", [m["property"]]):
            if prop not in props:
                continue
            if not one_mutant("seeded/" + name, prop, os.path.join(os.path.dirname(meta), "patch.diff"), 1, tier_args):
                missed += 1
    return missed


def matrix(props, only, tier_args, seeds, own_only=False, out_name="MATRIX.json"):
    """Every seeded / hand-written change against every requested check, for several VERIF_SEEDs:
    which checks catch which changes, and how reliably within the quick budget."""
    rows = []
    items = [("seeded/" + os.path.basename(os.path.dirname(m)), os.path.join(os.path.dirname(m), "patch.diff"))
             for m in sorted(glob.glob(os.path.join(env.VERIF, "seeded", "*", "meta.json")))]
    items += [("mutants/" + os.path.basename(p)[:-5], p) for p in sorted(glob.glob(os.path.join(env.VERIF, "mutants", "*.diff")))]
    for name, patch in items:
        if only and only not in name:
            continue
        row = {"change": name}
        own = os.path.basename(name)[:3]
        for prop in props:
            if own_only != (prop == own):
                continue
            hits = []
            for seed in seeds:
                d = scratch_repo(patch, 1)
                rdir = tempfile.mkdtemp(prefix="selfies-replays-")
                try:
                    code, out = run_check(prop, {"VERIF_REPO": d, "VERIF_REPLAY_DIR": rdir, "VERIF_SEED": str(seed)},
                                          tier_args + ["--no-evidence"])
                finally:
                    shutil.rmtree(d, ignore_errors=True)
                    shutil.rmtree(rdir, ignore_errors=True)
                cls = re.search(r"class=(\w+)", out)
                hits.append(cls.group(1) if code == 1 and cls else ("harness" if code == 2 else "-"))
            row[prop] = hits
            print("matrix %-48s %s %s" % (name, prop, hits), flush=True)
        rows.append(row)
    with open(os.path.join(env.VERIF, "seeded", out_name), "w") as f:
        json.dump({"seeds": seeds, "tier": tier_args, "rows": rows}, f, indent=1)
    return 0


def benign(props, only, tier_args):
    """Property-preserving changes (the repair of KF1, locks around the caches, a re-implemented
    capacity cache with new messages, a new preset and default, a frozenset alphabet): every
    check must stay silent (exit 0, no VIOLATION line, no harness error)."""
    bad = 0
    for patch in sorted(glob.glob(os.path.join(env.VERIF, "benign", "*.diff"))):
        name = os.path.basename(patch)[:-5]
        if only and only not in name:
            continue
        for prop in props:
            d = scratch_repo(patch, 1)
            rdir = tempfile.mkdtemp(prefix="selfies-replays-")
            try:
                code, out = run_check(prop, {"VERIF_REPO": d, "VERIF_REPLAY_DIR": rdir}, tier_args + ["--no-evidence"])
            finally:
                shutil.rmtree(d, ignore_errors=True)
                shutil.rmtree(rdir, ignore_errors=True)
            known = "KNOWN-FINDING" in out
            ok = code == 0 and "VIOLATION" not in out
            print("benign %-36s %s exit=%d%s %s" % (name, prop, code, " (known finding printed)" if known else "",
                                                    "OK" if ok else "FALSE-ALARM"), flush=True)
            if not ok:
                bad += 1
                print("    " + "\n    ".join(out.strip().splitlines()[-6:]))
    return bad


def unchanged(props, tier_args):
    bad = 0
    for prop in props:
        code, out = run_check(prop, {}, tier_args + ["--no-evidence"])
        print("unchanged tree %s exit=%d %s" % (prop, code, out.strip().splitlines()[-1]), flush=True)
        if code != 0 or "VIOLATION" in out:
            bad += 1
    return bad


def main():
    ap = argparse.ArgumentParser()
    ap.add_argument("what", nargs="?", default="all", choices=("determinism", "mutants", "seeded", "unchanged", "all", "patch", "matrix", "benign"))
    ap.add_argument("--matrix-seeds", default="0,1,2")
    ap.add_argument("--own", action="store_true", help="matrix: only the check of the property the change was written against (else: only the others)")
    ap.add_argument("--patch", default=None)
    ap.add_argument("--props", default="C06,C07,C11,C12,C19")
    ap.add_argument("--only", default=None)
    ap.add_argument("--seeds", type=int, default=6)
    ap.add_argument("--runs", type=int, default=96)
    ap.add_argument("--tier", default="quick")
    a = ap.parse_args()
    props = a.props.split(",")
    tier_args = ["--tier", a.tier]
    bad = 0
    if a.what == "matrix":
        matrix(props, a.only, tier_args, [int(x) for x in a.matrix_seeds.split(",")], a.own,
               "MATRIX_own.json" if a.own else "MATRIX_cross.json")
    if a.what == "patch":
        for prop in props:
            if not one_mutant(os.path.basename(a.patch), prop, a.patch, 1, tier_args):
                bad += 1
    if a.what in ("benign", "all"):
        bad += benign(props, a.only, tier_args)
    if a.what in ("determinism", "all"):
        bad += determinism(props, list(range(1000, 1000 + a.seeds)), a.runs)
    if a.what in ("unchanged", "all"):
        bad += unchanged(props, tier_args)
    if a.what in ("mutants", "all"):
        bad += mutants(props, a.only, tier_args)
    if a.what in ("seeded", "all"):
        bad += seeded(props, a.only, tier_args)
    print("SELFTEST %s (%d problems)" % ("OK" if bad == 0 else "FAILED", bad))
    sys.exit(0 if bad == 0 else 1)


if __name__ == "__main__":
    main()
