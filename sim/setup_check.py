"""MANIFEST.setup_cmd: nothing is built or installed (standard library only);
verify that the interpreter, the SUT import path and the seams are there."""
import os
import sys


def main():
    from . import env
    assert sys.version_info[:2] >= (3, 12), "sys.monitoring (PEP 669) needs CPython >= 3.12"
    assert hasattr(sys, "monitoring")
    assert hasattr(os, "fork")
    sf = env.import_sut()
    for d in ("evidence", "replays"):
        os.makedirs(os.path.join(env.VERIF, d), exist_ok=True)
    print("setup ok: python %s, selfies %s from %s" % (sys.version.split()[0], sf.__version__, sf.__file__))


if __name__ == "__main__":
    main()
