"""python -m sim.soak --minutes N [--props ...] [--workers K] [--start S]

Runs the quick checks of the given properties over consecutive VERIF_SEED
values on the *unchanged* tree until the time is used up; any exit status
other than 0 is a false alarm (or a genuine finding) to be investigated.
Meant for `vp run`; writes no evidence."""
import argparse
import os
import subprocess
import sys
import time

from . import env


def main():
    ap = argparse.ArgumentParser()
    ap.add_argument("--minutes", type=float, default=60)
    ap.add_argument("--props", default="C06,C07,C11,C12,C19")
    ap.add_argument("--workers", type=int, default=8)
    ap.add_argument("--start", type=int, default=100000)
    ap.add_argument("--runs", type=int, default=None)
    a = ap.parse_args()
    t_end = time.time() + a.minutes * 60
    seed = a.start
    bad = 0
    n = 0
    while time.time() < t_end:
        for prop in a.props.split(","):
            e = dict(os.environ, VERIF_SEED=str(seed))
            for k in ("PYTHONHASHSEED", "VERIF_SCRATCH", "VERIF_SCRATCH_OWNER", "PYTHONPYCACHEPREFIX"):
                e.pop(k, None)
            cmd = [sys.executable, "-m", "sim.check", "--property", prop, "--no-evidence", "--workers", str(a.workers)]
            if a.runs:
                cmd += ["--runs", str(a.runs)]
            p = subprocess.run(cmd, cwd=env.VERIF, env=e, stdout=subprocess.PIPE, stderr=subprocess.STDOUT, text=True)
            n += 1
            last = [l for l in p.stdout.strip().splitlines() if not l.startswith("KNOWN-FINDING")]
            print("seed=%d %s exit=%d %s" % (seed, prop, p.returncode, last[-1] if last else ""), flush=True)
            if p.returncode != 0:
                bad += 1
                print(p.stdout[-3000:], flush=True)
        seed += 1
    print("SOAK done: %d checks, %d non-zero" % (n, bad))
    sys.exit(1 if bad else 0)


if __name__ == "__main__":
    main()
