"""Reference components (stubs) of the simulation.  None of them calls or
imports the system under test.

* ConfigModel   - reference model of the configuration API
* ValenceReader - independent reader of the SMILES dialect the decoder writes
* MolGen        - constructive molecule generator that knows every atom's
                  bond-order sum by construction and spells SMILES itself
* capacity()/alphabet_lower_bound() - the table semantics of the statements
"""
import re

ELEMENTS = (
    "H He Li Be B C N O F Ne Na Mg Al Si P S Cl Ar K Ca Sc Ti V Cr Mn Fe Co Ni "
    "Cu Zn Ga Ge As Se Br Kr Rb Sr Y Zr Nb Mo Tc Ru Rh Pd Ag Cd In Sn Sb Te I "
    "Xe Cs Ba Hf Ta W Re Os Ir Pt Au Hg Tl Pb Bi Po At Rn Fr Ra Rf Db Sg Bh Hs "
    "Mt Ds Rg Cn Fl Lv La Ce Pr Nd Pm Sm Eu Gd Tb Dy Ho Er Tm Yb Lu Ac Th Pa U "
    "Np Pu Am Cm Bk Cf Es Fm Md No Lr").split()
ELEMENT_SET = frozenset(ELEMENTS)
ORGANIC = ("B", "C", "N", "O", "S", "P", "F", "Cl", "Br", "I")
INDEX_ALPHABET = (
    "[C]", "[Ring1]", "[Ring2]", "[Branch1]", "[=Branch1]", "[#Branch1]",
    "[Branch2]", "[=Branch2]", "[#Branch2]", "[O]", "[N]", "[=N]", "[=C]",
    "[#C]", "[S]", "[P]")
PRESET_NAMES = ("default", "octet_rule", "hypervalent")

KEY_RE = re.compile(r"^([A-Z][a-z]?)(?:([+-])([1-9][0-9]*))?$")


def key_of(el, ch):
    return el if ch == 0 else "%s%+d" % (el, ch)


def parse_key(k):
    """table key -> (element, charge) for a *well-formed* key, else None."""
    if not isinstance(k, str):
        return None
    m = KEY_RE.match(k)
    if not m or m.group(1) not in ELEMENT_SET:
        return None
    try:
        ch = int(m.group(3)) if m.group(3) else 0
    except ValueError:          # more digits than int() accepts: not a charge anybody can use
        return None
    return m.group(1), (ch if m.group(2) != "-" else -ch)


def well_formed(K):
    """A table of the shape the statements talk about: '?' present, keys E /
    E+n / E-n in canonical decimal, capacities plain non-negative ints."""
    if not isinstance(K, dict) or "?" not in K:
        return False
    for k, v in K.items():
        if k != "?" and parse_key(k) is None:
            return False
        if type(v) is not int or v < 0:
            return False
    return True


def capacity(K, el, ch):
    k = key_of(el, ch)
    return K[k] if k in K else K["?"]


def alphabet_lower_bound(K):
    """What C07 says the alphabet must contain at least (K well-formed)."""
    out = set(INDEX_ALPHABET)
    for L in (1, 2, 3):
        for b in ("", "=", "#"):
            out.add("[%sBranch%d]" % (b, L))
        out.add("[Ring%d]" % L)
        out.add("[=Ring%d]" % L)
    for k, c in K.items():
        if k == "?":
            continue
        for b, m in (("", 1), ("=", 2), ("#", 3)):
            if m <= c:
                out.add("[%s%s]" % (b, k))
    return out


class ConfigModel:
    """Reference model of set/get: a table, three constant presets."""

    def __init__(self, presets):
        self.presets = {n: dict(t) for n, t in presets.items()}
        self.table = dict(self.presets["default"])
        self.src = None            # oracle-side spelling of the table: None = import state
        self.known = True          # False after an accepted non-table argument
        self.changes = 0

    def set_ok(self, arg, lit):
        self.changes += 1
        if isinstance(arg, str) and arg not in self.presets:
            self.known = False         # an unknown preset name was accepted: what is in force now is anyone's guess
        elif isinstance(arg, str):
            self.table = dict(self.presets[arg])
            self.src = ("preset", arg)
            self.known = True
        elif isinstance(arg, dict):
            self.table = dict(arg)
            self.src = ("lit", lit)
            self.known = True
        else:
            self.known = False


# ---------------------------------------------------------------------------
# ValenceReader
# ---------------------------------------------------------------------------

_ATOM_RE = re.compile(r"\[(\d*)([A-Z][a-z]?)(@{0,2})(?:H(\d))?([+-]\d+)?\]")
_ORDER = {"-": 1, "=": 2, "#": 3, "/": 1, "\\": 1}


class ReadError(Exception):
    pass


def read_smiles(smiles):
    """-> (atoms [(el, charge, h)], valence [sum of bond orders + h]).
    Accepts exactly the dialect selfies.decoder writes (no aromatic atoms)."""
    atoms, bonds = [], {}
    i, n = 0, len(smiles)
    prev, stack, pend, rings = None, [], None, {}

    def add_bond(a, b, o):
        if a == b:
            raise ReadError("self bond")
        k = (min(a, b), max(a, b))
        if k in bonds:
            raise ReadError("two bonds between one pair")
        bonds[k] = o

    if n == 0:
        return [], []
    while i < n:
        c = smiles[i]
        if c == ".":
            if stack or pend is not None or prev is None:
                raise ReadError("bad dot")
            prev = None
            i += 1
        elif c in _ORDER:
            if pend is not None:
                raise ReadError("two bond chars")
            pend = _ORDER[c]
            i += 1
        elif c == "(":
            if prev is None or pend is not None:
                raise ReadError("bad (")
            stack.append(prev)
            i += 1
        elif c == ")":
            if pend is not None or not stack:
                raise ReadError("bad )")
            prev = stack.pop()
            i += 1
        elif c == "%" or c.isdigit():
            if c == "%":
                lab = smiles[i + 1:i + 3]
                if len(lab) != 2 or not lab.isdigit():
                    raise ReadError("bad %")
                i += 3
            else:
                lab = c
                i += 1
            if prev is None:
                raise ReadError("ring number without atom")
            if lab in rings:
                a, o = rings.pop(lab)
                if o is not None and pend is not None and o != pend:
                    raise ReadError("mismatched ring bond orders")
                add_bond(a, prev, o or pend or 1)
            else:
                rings[lab] = (prev, pend)
            pend = None
        else:
            if c == "[":
                m = _ATOM_RE.match(smiles, i)
                if not m:
                    raise ReadError("bad bracket atom at %d" % i)
                _, el, _, h, ch = m.groups()
                i = m.end()
                atom = (el, int(ch) if ch else 0, int(h) if h else 0)
            else:
                el = smiles[i:i + 2] if smiles[i:i + 2] in ("Cl", "Br") else c
                if el not in ORGANIC:
                    raise ReadError("bad atom %r" % el)
                i += len(el)
                atom = (el, 0, 0)
            if atom[0] not in ELEMENT_SET:
                raise ReadError("unknown element %r" % atom[0])
            atoms.append(atom)
            idx = len(atoms) - 1
            if prev is not None:
                add_bond(prev, idx, pend or 1)
            elif pend is not None:
                raise ReadError("bond before first atom")
            pend = None
            prev = idx
    if stack or rings or pend is not None:
        raise ReadError("unbalanced")
    val = [a[2] for a in atoms]
    for (a, b), o in bonds.items():
        val[a] += o
        val[b] += o
    return atoms, val


def valence_violations(K, smiles):
    """[(atom index, (el, ch, h), valence, capacity)] for atoms over capacity."""
    atoms, val = read_smiles(smiles)
    out = []
    for i, ((el, ch, h), v) in enumerate(zip(atoms, val)):
        c = capacity(K, el, ch)
        if v > c:
            out.append((i, (el, ch, h), v, c))
    return out


# ---------------------------------------------------------------------------
# MolGen
# ---------------------------------------------------------------------------

_BOND_SYM = {1: "", 2: "=", 3: "#"}


class Mol:
    def __init__(self):
        self.atoms = []    # dict(el, ch, h, iso, chi, br, aro)
        self.bonds = {}    # (a, b) a<b -> order (1,2,3); aromatic bonds carry their Kekule order
        self.arom = set()  # bonds spelled aromatically (implicit between lowercase atoms)
        self.frag = []     # fragment id per atom

    def valences(self):
        val = [a["h"] for a in self.atoms]
        for (a, b), o in self.bonds.items():
            val[a] += o
            val[b] += o
        return val

    def violates(self, K):
        return any(v > capacity(K, a["el"], a["ch"])
                   for a, v in zip(self.atoms, self.valences()))

    def atom_smiles(self, i, rng_bits):
        a = self.atoms[i]
        el = a["el"].lower() if a["aro"] else a["el"]
        if not a["br"]:
            return el
        s = "["
        if a["iso"] is not None:
            s += str(a["iso"])
        s += el + (a["chi"] or "")
        if a["h"]:
            s += "H" if (a["h"] == 1 and rng_bits & 1) else "H%d" % a["h"]
        elif rng_bits & 4 and (rng_bits >> 1) % 3 == 0:
            s += "H0"            # an explicit zero hydrogen count
        ch = a["ch"]
        if ch:
            style = (rng_bits >> 1) % 3
            sign = "+" if ch > 0 else "-"
            if style == 0 or abs(ch) > 3:
                s += "%+d" % ch
            elif style == 1:
                s += sign * abs(ch)
            else:
                s += sign if abs(ch) == 1 else "%+d" % ch
        if a.get("cls") is not None:
            s += ":%d" % a["cls"]
        return s + "]"

    def smiles(self, rng):
        n = len(self.atoms)
        parent, children = {}, {i: [] for i in range(n)}
        tree = set()
        for (a, b) in sorted(self.bonds):
            if b not in parent and self.frag[a] == self.frag[b]:
                parent[b] = a
                children[a].append(b)
                tree.add((a, b))
        ringb = [k for k in sorted(self.bonds) if k not in tree]
        base = rng.choice((1, 1, 1, 7, 9, 10, 42, 90))       # two-digit (%nn) ring numbers too
        lab = {k: min(99, r + base) for r, k in enumerate(ringb)}
        reuse = rng.random() < 0.35                           # ring numbers reused once their ring is closed
        in_use = set()
        stereo = {}                                           # directional single bonds (no effect on valence)
        for k in sorted(self.bonds):
            if self.bonds[k] == 1 and k not in self.arom and k in tree and rng.random() < 0.04:
                stereo[k] = rng.choice(("/", "\\"))

        def bsym(k, explicit_single=False):
            if k in self.arom:
                if getattr(self, "colon", False):
                    return ":"         # aromatic bonds written out between upper-case atoms
                return ":" if explicit_single else ""
            o = self.bonds[k]
            if k in stereo:
                return stereo[k]
            if o == 1:
                a, b = k
                if self.atoms[a]["aro"] and self.atoms[b]["aro"]:
                    return "-"     # single bond between aromatic atoms must be spelled
                return "-" if explicit_single else ""
            return _BOND_SYM[o]

        def lab_s(r):
            return str(r) if r < 10 else "%%%d" % r

        def rec(i):
            s = self.atom_smiles(i, rng.getrandbits(3))
            released = []
            for k in ringb:
                if i not in k:
                    continue
                if k not in self._ring_side:   # first visited end opens the ring
                    side = rng.randrange(3)   # bond char at opening, closing or both
                    self._ring_side[k] = side
                    if reuse:
                        n_ = base
                        while n_ in in_use and n_ < 99:
                            n_ += 1
                        lab[k] = n_
                        in_use.add(n_)
                    s += (bsym(k) if side != 1 else "") + lab_s(lab[k])
                else:
                    side = self._ring_side[k]
                    s += (bsym(k) if side != 0 else "") + lab_s(lab[k])
                    released.append(lab[k])
            for n_ in released:                # a number is free again after the atom that closed it
                in_use.discard(n_)
            ch = children[i]
            for c in ch[:-1]:
                s += "(" + bsym((i, c), rng.random() < 0.1) + rec(c) + ")"
            if ch:
                c = ch[-1]
                s += bsym((i, c), rng.random() < 0.1) + rec(c)
            return s

        self._ring_side = {}
        roots = [i for i in range(n) if i not in parent]
        return ".".join(rec(r) for r in roots)


_LEAVES = (("F", 1), ("Cl", 1), ("Br", 1), ("I", 1), ("H", 1), ("O", 2), ("S", 2), ("N", 3), ("C", 3))
_SKELETON = ("C", "C", "C", "N", "O", "S", "P", "B")
_METALS = ("Fe", "Zn", "Se", "Si", "Na", "Cu", "Sn", "As", "Te", "Li", "Al", "Xe")


def _new_atom(el, ch=0, h=0, iso=None, chi=None, br=None):
    if br is None:
        br = False
    if ch != 0 or h or iso is not None or chi or el not in ORGANIC:
        br = True
    return dict(el=el, ch=ch, h=h, iso=iso, chi=chi, br=br, aro=False)


def gen_mol(rng, tables, max_atoms=14):
    """A molecule biased to sit at the capacity boundary of one of ``tables``
    (list of well-formed dicts).  Ground truth: Mol.valences()."""
    Kf = rng.choice(tables)
    keys = [parse_key(k) for k in Kf if k != "?"]
    keys = [k for k in keys if k]
    mol = Mol()

    def pick_type():
        u = rng.random()
        if u < 0.45 and keys:
            el, ch = rng.choice(keys)
        elif u < 0.8:
            el, ch = rng.choice(_SKELETON), 0
        elif u < 0.9:
            el, ch = rng.choice(_METALS), rng.choice((0, 0, 1, 2, -1))
        else:
            el, ch = rng.choice(_SKELETON), rng.choice((1, -1, 2, -2))
        h = rng.choice((0, 0, 0, 1, 1, 2, 3)) if rng.random() < 0.35 else 0
        iso = rng.choice((2, 13, 14, 15, 18)) if rng.random() < 0.08 else None
        br = rng.random() < 0.2
        return _new_atom(el, ch, h, iso, None, br)

    def room(i, val):
        a = mol.atoms[i]
        return capacity(Kf, a["el"], a["ch"]) - val[i]

    n = rng.randint(1, max_atoms)
    fid = 0
    val = []
    for i in range(n):
        a = pick_type()
        mol.atoms.append(a)
        val.append(a["h"])
        if i == 0:
            mol.frag.append(fid)
            continue
        cands = [j for j in range(i) if mol.frag[j] == fid and room(j, val) >= 1]
        if not cands or rng.random() < 0.06:
            fid += 1
            mol.frag.append(fid)
            continue
        mol.frag.append(fid)
        j = cands[-1] if rng.random() < 0.6 else rng.choice(cands)
        o = min(rng.choice((1, 1, 1, 2, 2, 3)), max(1, room(j, val)), max(1, room(i, val)))
        mol.bonds[(j, i)] = o
        val[j] += o
        val[i] += o
    # ring closures
    for _ in range(rng.choice((0, 0, 1, 1, 2, 3))):
        if n < 3:
            break
        a, b = sorted(rng.sample(range(n), 2))
        if mol.frag[a] != mol.frag[b] or (a, b) in mol.bonds:
            continue
        o = min(rng.choice((1, 1, 2)), max(1, room(a, val)), max(1, room(b, val)))
        mol.bonds[(a, b)] = o
        val[a] += o
        val[b] += o
    # chirality on some saturated bracket-able atoms (no effect on valence)
    for i, a in enumerate(mol.atoms):
        if rng.random() < 0.08 and a["el"] in ("C", "N", "S", "P", "Si"):
            a["chi"] = rng.choice(("@", "@@"))
            a["br"] = True
    for a in mol.atoms:
        if a["br"] and rng.random() < 0.06:
            a["cls"] = rng.choice((0, 1, 2, 12, 123))
    # focus atoms: tune to capacity + delta under one of the tables
    for _ in range(rng.choice((1, 1, 2, 3))):
        i = rng.randrange(n)
        a = mol.atoms[i]
        K = rng.choice(tables)
        target = capacity(K, a["el"], a["ch"]) + rng.choice((-1, 0, 0, 1))
        guard = 0
        while val[i] < target and guard < 16 and len(mol.atoms) < max_atoms + 12:
            guard += 1
            need = target - val[i]
            if a["br"] and a["h"] < 9 and rng.random() < 0.3:
                a["h"] += 1
                val[i] += 1
                continue
            leaves = [l for l in _LEAVES if l[1] <= need]
            el, o = rng.choice(leaves)
            j = len(mol.atoms)
            mol.atoms.append(_new_atom(el))
            mol.frag.append(mol.frag[i])
            val.append(o)
            mol.bonds[(i, j)] = o
            val[i] += o
        while val[i] > target and a["h"] > 0:
            a["h"] -= 1
            val[i] -= 1
            if a["h"] == 0 and a["ch"] == 0 and a["iso"] is None and not a["chi"] \
                    and a["el"] in ORGANIC and rng.random() < 0.5:
                a["br"] = False
    assert val == mol.valences()
    return mol


# aromatic templates: atoms (element, explicit H, charge), ring bonds, one Kekule structure
# (the set of double bonds).  Every Kekule structure of these systems gives each atom the
# same bond-order sum (each matched atom exactly one double bond, pyrrole-type atoms none),
# so the sums are known independently of which structure the library's matching picks.
def _ring(n, start=0):
    return [(start + i, start + (i + 1) % n) for i in range(n)]


_NAPH_BONDS = [(0, 1), (1, 2), (2, 3), (3, 4), (4, 9), (9, 0), (4, 5), (5, 6), (6, 7), (7, 8), (8, 9)]
_NAPH_DBL = [(0, 1), (2, 3), (4, 9), (5, 6), (7, 8)]
_INDO_BONDS = [(0, 1), (1, 2), (2, 3), (3, 4), (4, 5), (5, 6), (6, 7), (7, 8), (8, 3), (8, 0)]
_INDO_DBL = [(1, 2), (3, 8), (4, 5), (6, 7)]
_C = ("C", 0, 0)
_ARO_TEMPLATES = (
    ([_C] * 6, _ring(6), [(0, 1), (2, 3), (4, 5)]),                                   # benzene
    ([("N", 0, 0)] + [_C] * 5, _ring(6), [(0, 1), (2, 3), (4, 5)]),                   # pyridine
    ([("N", 0, 0), _C, ("N", 0, 0)] + [_C] * 3, _ring(6), [(0, 1), (2, 3), (4, 5)]),  # pyrimidine
    ([("N", 1, 0)] + [_C] * 4, _ring(5), [(1, 2), (3, 4)]),                           # pyrrole
    ([("O", 0, 0)] + [_C] * 4, _ring(5), [(1, 2), (3, 4)]),                           # furan
    ([("S", 0, 0)] + [_C] * 4, _ring(5), [(1, 2), (3, 4)]),                           # thiophene
    ([("Se", 0, 0)] + [_C] * 4, _ring(5), [(1, 2), (3, 4)]),                          # selenophene
    ([("N", 1, 1)] + [_C] * 5, _ring(6), [(0, 1), (2, 3), (4, 5)]),                   # pyridinium
    ([("N", 0, 0), _C, ("N", 1, 0), _C, _C], _ring(5), [(0, 1), (3, 4)]),             # imidazole
    ([_C] * 10, _NAPH_BONDS, _NAPH_DBL),                                              # naphthalene
    ([("N", 0, 0)] + [_C] * 9, _NAPH_BONDS, _NAPH_DBL),                               # quinoline
    ([("N", 1, 0)] + [_C] * 8, _INDO_BONDS, _INDO_DBL),                               # indole
    ([("O", 0, 0)] + [_C] * 8, _INDO_BONDS, _INDO_DBL),                               # benzofuran
    ([("S", 0, 0)] + [_C] * 8, _INDO_BONDS, _INDO_DBL),                               # benzothiophene
    ([("O", 0, 1)] + [_C] * 5, _ring(6), [(0, 1), (2, 3), (4, 5)]),                   # pyrylium [o+]
    ([("S", 0, 1)] + [_C] * 5, _ring(6), [(0, 1), (2, 3), (4, 5)]),                   # thiopyrylium [s+]
    ([("N", 0, -1)] + [_C] * 4, _ring(5), [(1, 2), (3, 4)]),                          # pyrrolide [n-]
    ([("C", 1, -1)] + [_C] * 4, _ring(5), [(1, 2), (3, 4)]),                          # cyclopentadienide [cH-]
    ([("S", 0, 0), _C, ("N", 0, 0), _C, _C], _ring(5), [(1, 2), (3, 4)]),             # thiazole
    ([("O", 0, 0), _C, ("N", 0, 0), _C, _C], _ring(5), [(1, 2), (3, 4)]),             # oxazole
    ([("P", 0, 0)] + [_C] * 5, _ring(6), [(0, 1), (2, 3), (4, 5)]),                   # phosphinine
    ([("Te", 0, 0)] + [_C] * 4, _ring(5), [(1, 2), (3, 4)]),                          # tellurophene
    ([("N", 0, -1)] + [_C] * 8, _INDO_BONDS, _INDO_DBL),                              # indolide
)


def gen_aromatic_mol(rng, tables):
    """An aromatic system (lowercase atoms, implicit aromatic bonds) carrying
    single-bonded substituents, possibly with a second aliphatic fragment."""
    atoms, rbonds, doubles = rng.choice(_ARO_TEMPLATES)
    mol = Mol()
    for (el, h, ch) in atoms:
        a = _new_atom(el, ch, h)
        a["aro"] = True
        mol.atoms.append(a)
        mol.frag.append(0)
    dbl = {(min(a, b), max(a, b)) for a, b in doubles}
    for a, b in rbonds:
        k = (min(a, b), max(a, b))
        mol.bonds[k] = 2 if k in dbl else 1
        mol.arom.add(k)
    K = rng.choice(tables)
    val = mol.valences()
    deg = [0] * len(atoms)
    for a, b in rbonds:
        deg[a] += 1
        deg[b] += 1
    for i in range(len(atoms)):
        a = mol.atoms[i]
        if a["el"] != "C" or a["ch"] or a["h"] or deg[i] != 2 or rng.random() < 0.5:
            continue
        # one single-bonded substituent: the ring carbon lands at 4; with boundary bias the
        # *substituent* is tuned instead (its own capacity - 1 / 0 / + 1)
        el = rng.choice(("F", "Cl", "C", "N", "O", "S", "B", "I"))
        j = len(mol.atoms)
        mol.atoms.append(_new_atom(el))
        mol.frag.append(0)
        mol.bonds[(i, j)] = 1
        val[i] += 1
        val.append(1)
        target = capacity(K, el, 0) + rng.choice((-1, 0, 0, 1))
        guard = 0
        while val[j] < target and guard < 8:
            guard += 1
            need = target - val[j]
            lel, o = rng.choice([l for l in _LEAVES if l[1] <= need])
            m = len(mol.atoms)
            mol.atoms.append(_new_atom(lel))
            mol.frag.append(0)
            mol.bonds[(j, m)] = o
            val[j] += o
            val.append(o)
    if rng.random() < 0.25:
        # the same system spelt with upper-case atoms and explicit ':' bonds (C1:C:C:C:C:C:1)
        mol.colon = True
        for a in mol.atoms:
            if a["aro"]:
                a["aro"] = False
                if a["h"] or a["ch"]:
                    a["br"] = True
    if rng.random() < 0.2:      # a second, aliphatic fragment
        k = len(mol.atoms)
        mol.atoms.append(_new_atom(rng.choice(("C", "N", "O", "Na", "Cl")), rng.choice((0, 0, 1, -1))))
        mol.frag.append(1)
    assert val + [mol.atoms[i]["h"] for i in range(len(val), len(mol.atoms))] == mol.valences()
    return mol
