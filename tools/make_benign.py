import os, shutil, subprocess, sys
M = {}
def mut(name, file, old, new, count=1):
    M.setdefault(name, []).append((file, old, new, count))

# b1: the repair of KF1 (return a copy of the memoised alphabet)
mut("alphabet-returns-copy", "selfies/bond_constraints.py",
'''    # clear cache since we changed alphabet
    get_semantic_robust_alphabet.cache_clear()
''','''    # clear cache since we changed alphabet
    _build_semantic_robust_alphabet.cache_clear()
''')
mut("alphabet-returns-copy", "selfies/bond_constraints.py",
'''@functools.lru_cache()
def get_semantic_robust_alphabet() -> Set[str]:
    """Returns a subset of all SELFIES symbols that are constrained
    by :mod:`selfies` under the current semantic constraints.

    :return: a subset of all SELFIES symbols that are semantically constrained.
    """

    alphabet_subset = set()''','''def get_semantic_robust_alphabet() -> Set[str]:
    """Returns a subset of all SELFIES symbols that are constrained
    by :mod:`selfies` under the current semantic constraints.

    :return: a subset of all SELFIES symbols that are semantically constrained.
    """

    return set(_build_semantic_robust_alphabet())


@functools.lru_cache()
def _build_semantic_robust_alphabet() -> Set[str]:
    alphabet_subset = set()''')

# b2: thread-safety improvement: locks around the shared caches
mut("locks-around-caches", "selfies/grammar_rules.py",
'''import functools
import itertools
import re
''','''import functools
import itertools
import re
import threading
''')
mut("locks-around-caches", "selfies/grammar_rules.py",
'''    except KeyError:
        output = _process_atom_selfies_no_cache(symbol)
        if output is None:
            return None
        _PROCESS_ATOM_CACHE[symbol] = output
''','''    except KeyError:
        with _CACHE_LOCK:
            output = _PROCESS_ATOM_CACHE.get(symbol)
            if output is None:
                output = _process_atom_selfies_no_cache(symbol)
                if output is None:
                    return None
                _PROCESS_ATOM_CACHE[symbol] = output
''')
mut("locks-around-caches", "selfies/grammar_rules.py",
'''_PROCESS_ATOM_CACHE = _build_atom_cache()
''','''_PROCESS_ATOM_CACHE = _build_atom_cache()

_CACHE_LOCK = threading.Lock()
''')
mut("locks-around-caches", "selfies/bond_constraints.py",
'''import functools
from itertools import product
''','''import functools
import threading
from itertools import product
''')
mut("locks-around-caches", "selfies/bond_constraints.py",
'''    global _current_constraints

    if isinstance(bond_constraints, str):
        _current_constraints = get_preset_constraints(bond_constraints)
''','''    global _current_constraints

    if isinstance(bond_constraints, str):
        with _CONFIG_LOCK:
            _current_constraints = get_preset_constraints(bond_constraints)
''')
mut("locks-around-caches", "selfies/bond_constraints.py",
'''_current_constraints = _PRESET_CONSTRAINTS["default"]
''','''_current_constraints = _PRESET_CONSTRAINTS["default"]

_CONFIG_LOCK = threading.RLock()
''')

# b3: capacity cache as a plain dict cleared by the setter; new messages; ValueError for non-str keys
mut("dict-capacity-cache-new-messages", "selfies/bond_constraints.py",
'''@functools.lru_cache()
def get_bonding_capacity(element: str, charge: int) -> int:''','''def get_bonding_capacity(element: str, charge: int) -> int:
    try:
        return _CAPACITY_CACHE[(element, charge)]
    except KeyError:
        cap = _CAPACITY_CACHE[(element, charge)] = \\
            _lookup_bonding_capacity(element, charge)
        return cap


_CAPACITY_CACHE = dict()


def _lookup_bonding_capacity(element: str, charge: int) -> int:''')
mut("dict-capacity-cache-new-messages", "selfies/bond_constraints.py",
'''    get_bonding_capacity.cache_clear()
''','''    _CAPACITY_CACHE.clear()
''')
mut("dict-capacity-cache-new-messages", "selfies/bond_constraints.py",
'''        for key, value in bond_constraints.items():

            # error checking for keys
            j = max(key.find("+"), key.find("-"))''','''        for key, value in bond_constraints.items():

            # error checking for keys
            if not isinstance(key, str):
                raise ValueError("keys of bond_constraints must be str, "
                                 "got {!r}".format(key))
            j = max(key.find("+"), key.find("-"))''')
mut("dict-capacity-cache-new-messages", "selfies/bond_constraints.py",
'''                err_msg = "invalid key '{}' in bond_constraints".format(key)''','''                err_msg = "bond_constraints: key {!r} is not of the form " \\
                          "E, E+C or E-C".format(key)''')

# b4: a new preset and another '?' default
mut("new-preset-and-default", "selfies/bond_constraints.py",
'''    "?": 8
}''','''    "?": 6
}''')
mut("new-preset-and-default", "selfies/bond_constraints.py",
'''_PRESET_CONSTRAINTS["hypervalent"].update(
    {"Cl": 7, "Br": 7, "I": 7, "N": 5}
)''','''_PRESET_CONSTRAINTS["hypervalent"].update(
    {"Cl": 7, "Br": 7, "I": 7, "N": 5}
)
_PRESET_CONSTRAINTS["organic_only"] = {
    "H": 1, "C": 4, "N": 3, "O": 2, "F": 1, "?": 0
}''')

# b5: the alphabet becomes a frozenset
mut("alphabet-frozenset", "selfies/bond_constraints.py",
'''    alphabet_subset.update(INDEX_ALPHABET)

    return alphabet_subset''','''    alphabet_subset.update(INDEX_ALPHABET)

    return frozenset(alphabet_subset)''')

# (a 'permanent recursion limit' patch was tried here and is NOT benign: a deep decode after an
# encode then succeeds where a fresh interpreter raises RecursionError - C11/C19 both object, rightly)

out = sys.argv[1]
os.makedirs(out, exist_ok=True)
for name, edits in M.items():
    shutil.rmtree("b", ignore_errors=True)
    shutil.copytree("a", "b")
    for file, old, new, count in edits:
        p = os.path.join("b", file)
        s = open(p).read()
        assert s.count(old) == count, (name, file, s.count(old))
        open(p, "w").write(s.replace(old, new))
    d = subprocess.run(["diff", "-ruN", "a", "b"], capture_output=True, text=True).stdout
    open(os.path.join(out, name + ".diff"), "w").write(d)
    print(name, len(d.splitlines()))
