import os, shutil, subprocess, sys
M = {}
def mut(name, file, old, new, count=1):
    M.setdefault(name, []).append((file, old, new, count))

# ---------------- C11
mut("C11-preset-skips-cache-clear", "selfies/bond_constraints.py",
'''        _current_constraints = get_preset_constraints(bond_constraints)
''','''        _current_constraints = get_preset_constraints(bond_constraints)
        get_semantic_robust_alphabet.cache_clear()
        return
''')
mut("C11-symbol-cache-memoises-reject", "selfies/grammar_rules.py",
'''    bond_info, atom_fac = output
    atom = atom_fac()
    if atom.bonding_capacity < 0:
        return None  # too many Hs (e.g. [CH9]
    return bond_info, atom
''','''    if output is _REJECTED:
        return None
    bond_info, atom_fac = output
    atom = atom_fac()
    if atom.bonding_capacity < 0:
        _PROCESS_ATOM_CACHE[symbol] = _REJECTED
        return None  # too many Hs (e.g. [CH9]
    return bond_info, atom


_REJECTED = object()
''')
mut("C11-module-rings-cleared-on-success", "selfies/decoder.py",
'''    rings = []
    attribution_index = 0''','''    rings = _RINGS
    attribution_index = 0''')
mut("C11-module-rings-cleared-on-success", "selfies/decoder.py",
'''    _form_rings_bilocally(mol, rings)
    return mol_to_smiles(mol, attribute)
''','''    _form_rings_bilocally(mol, rings)
    del rings[:]
    return mol_to_smiles(mol, attribute)


_RINGS = []
''')
mut("C11-set-stores-callers-dict", "selfies/bond_constraints.py",
'''        _current_constraints = dict(bond_constraints)
''','''        _current_constraints = bond_constraints
''')
# ---------------- C12
mut("C12-incremental-assignment", "selfies/bond_constraints.py",
'''        for key, value in bond_constraints.items():
''','''        new_constraints = _current_constraints = dict(_current_constraints) if False else {}
        previous = get_semantic_constraints()
        _staged = dict()
        for key, value in bond_constraints.items():
''')
M.pop("C12-incremental-assignment")
mut("C12-incremental-assignment", "selfies/bond_constraints.py",
'''            if not (isinstance(value, int) and value >= 0):
                err_msg = "invalid value at " \\
                          "bond_constraints['{}'] = {}".format(key, value)
                raise ValueError(err_msg)

        _current_constraints = dict(bond_constraints)
''','''            if not (isinstance(value, int) and value >= 0):
                err_msg = "invalid value at " \\
                          "bond_constraints['{}'] = {}".format(key, value)
                raise ValueError(err_msg)
            if key in _current_constraints and _current_constraints \\
                    is not _PRESET_CONSTRAINTS["default"]:
                _current_constraints[key] = value  # update as we go

        _current_constraints = dict(bond_constraints)
''')
mut("C12-inplace-table-update", "selfies/bond_constraints.py",
'''        _current_constraints = dict(bond_constraints)
''','''        _current_constraints.clear()
        _current_constraints.update(bond_constraints)
''')
mut("C12-get-preset-returns-live", "selfies/bond_constraints.py",
'''    return dict(_PRESET_CONSTRAINTS[name])
''','''    return _PRESET_CONSTRAINTS[name]
''')
mut("C12-get-preset-returns-live", "selfies/bond_constraints.py",
'''        _current_constraints = get_preset_constraints(bond_constraints)
''','''        _current_constraints = dict(get_preset_constraints(bond_constraints))
''')
# ---------------- C06
mut("C06-ge-for-gt", "selfies/encoder.py",
'''        if bond_count > bond_cap:
''','''        if bond_count >= bond_cap and bond_cap > 6:
''')
mut("C06-strict-ignores-explicit-h", "selfies/encoder.py",
'''        bond_cap = atom.bonding_capacity
        bond_count = mol.get_bond_count(atom.index)
''','''        bond_cap = atom.bonding_capacity
        if atom.charge != 0 and atom.h_count:
            bond_cap += atom.h_count
        bond_count = mol.get_bond_count(atom.index)
''')
mut("C06-symbol-capacity-memo", "selfies/encoder.py",
'''        bond_cap = atom.bonding_capacity
        bond_count = mol.get_bond_count(atom.index)
''','''        key = atom_to_smiles(atom)
        if key not in _CAP_MEMO:
            _CAP_MEMO[key] = atom.bonding_capacity
        bond_cap = _CAP_MEMO[key]
        bond_count = mol.get_bond_count(atom.index)
''')
mut("C06-symbol-capacity-memo", "selfies/encoder.py",
'''def _check_bond_constraints(mol, smiles):
''','''_CAP_MEMO = dict()


def _check_bond_constraints(mol, smiles):
''')
# ---------------- C07
mut("C07-alphabet-not-cleared-for-presets", "selfies/bond_constraints.py",
'''        _current_constraints = get_preset_constraints(bond_constraints)
''','''        _current_constraints = get_preset_constraints(bond_constraints)
        get_bonding_capacity.cache_clear()
        return
''')
mut("C07-question-mark-symbol", "selfies/bond_constraints.py",
'''        if (m > c) or (a == "?"):
''','''        if (m > c) or (a == "?" and c != 5):
''')
mut("C07-filter-off-by-one", "selfies/bond_constraints.py",
'''        if (m > c) or (a == "?"):
''','''        if (m > c) or (m >= c and c == 3 and "+" in a) or (a == "?"):
''')
# ---------------- C19
mut("C19-module-ring-log", "selfies/utils/smiles_utils.py",
'''    ring_log = {"open": dict(), "n_rings": 0, "closed": []}
    for root in mol.get_roots():
        derived = []
        _derive_smiles_from_fragment(''','''    ring_log = _RING_LOG
    ring_log["open"].clear()
    ring_log["n_rings"] = 0
    del ring_log["closed"][:]
    for root in mol.get_roots():
        derived = []
        _derive_smiles_from_fragment(''')
mut("C19-module-ring-log", "selfies/utils/smiles_utils.py",
'''def _strlen(slist: List[str]) -> int:''','''_RING_LOG = {"open": dict(), "n_rings": 0, "closed": []}


def _strlen(slist: List[str]) -> int:''')
mut("C19-pooled-graph", "selfies/decoder.py",
'''    mol = MolecularGraph(attributable=attribute)

    rings = []''','''    mol = _POOL.pop() if _POOL else MolecularGraph()
    mol.__init__(attributable=attribute)
    _POOL.append(mol)

    rings = []''')
mut("C19-pooled-graph", "selfies/decoder.py",
'''def _tokenize_selfies(selfies, compatible):''','''_POOL = []


def _tokenize_selfies(selfies, compatible):''')
mut("C19-reserve-then-fill", "selfies/grammar_rules.py",
'''    except KeyError:
        output = _process_atom_selfies_no_cache(symbol)
        if output is None:
            return None
        _PROCESS_ATOM_CACHE[symbol] = output
''','''    except KeyError:
        _PROCESS_ATOM_CACHE[symbol] = _PROCESS_ATOM_CACHE["[C]"]  # reserve
        output = _process_atom_selfies_no_cache(symbol)
        if output is None:
            del _PROCESS_ATOM_CACHE[symbol]
            return None
        _PROCESS_ATOM_CACHE[symbol] = output
''')
mut("C19-module-parents-buffer", "selfies/utils/matching_utils.py",
'''    parents = [None] * len(graph)
    parents[root] = [None, None]
''','''    parents = _PARENTS
    del parents[:]
    parents.extend([None] * len(graph))
    parents[root] = [None, None]
''')
mut("C19-module-parents-buffer", "selfies/utils/matching_utils.py",
'''def _flip_augmenting_path(matching, path):''','''_PARENTS = []


def _flip_augmenting_path(matching, path):''')

mut("C11-hashseed-dependent-fragment-order", "selfies/encoder.py",
'''    # trim attribution map of empty tokens
    attribution_maps = [a for a in attribution_maps if a.token]
    result = ".".join(fragments), attribution_maps''','''    # trim attribution map of empty tokens
    attribution_maps = [a for a in attribution_maps if a.token]
    if len(fragments) > 2 and not attribute:
        # group identical fragments together (counter-ions, solvent)
        order = {f: i for i, f in enumerate(set(fragments))}
        fragments.sort(key=order.get)
    result = ".".join(fragments), attribution_maps''')

out = sys.argv[1]
os.makedirs(out, exist_ok=True)
for name, edits in M.items():
    shutil.rmtree("b", ignore_errors=True)
    shutil.copytree("a", "b")
    for file, old, new, count in edits:
        p = os.path.join("b", file)
        s = open(p).read()
        assert s.count(old) == count, (name, file, s.count(old))
        open(p, "w").write(s.replace(old, new))
    d = subprocess.run(["diff", "-ruN", "a", "b"], capture_output=True, text=True).stdout
    assert d
    open(os.path.join(out, name + ".diff"), "w").write(d)
    print(name, len(d.splitlines()))
