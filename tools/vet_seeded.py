#!/usr/bin/env python3
"""tools/vet_seeded.py <agent worktree> <n> <seeded id> <property>

Independent confirmation of a sub-agent's change before it is kept under
/verif/seeded/<id>/: in a *fresh* scratch worktree of /repo (removed
afterwards) check that
  1. the patch applies to the unchanged tree and touches only selfies/,
  2. the demonstration passes without the patch and fails with it,
  3. the existing suite gives the baseline result with the patch
     (51 passed; only the 2 pre-existing dataset failures).
Then copy patch.diff, demo.py and write meta.json."""
import json
import os
import re
import shutil
import subprocess
import sys
import tempfile

PY = "/venv/bin/python"


def sh(cmd, **kw):
    return subprocess.run(cmd, shell=isinstance(cmd, str), stdout=subprocess.PIPE, stderr=subprocess.STDOUT, text=True, **kw)


def main():
    wt, n, sid, prop = sys.argv[1:5]
    out = os.path.join(wt, "out")
    patch = os.path.join(out, "change%s.diff" % n)
    demo = os.path.join(out, "demo%s.py" % n)
    assert os.path.exists(patch) and os.path.exists(demo), "missing deliverables"
    files = re.findall(r"^\+\+\+ b/(\S+)", open(patch).read(), re.M)
    assert files and all(f.startswith("selfies/") for f in files), files
    scratch = tempfile.mkdtemp(prefix="vet-")
    os.rmdir(scratch)
    r = sh(["git", "-C", "/repo", "worktree", "add", "-q", "--detach", scratch, "HEAD"])
    assert r.returncode == 0, r.stdout
    res = {}
    try:
        dsrc = open(demo).read().replace(wt, scratch)
        dpath = os.path.join(scratch, "demo_vet.py")
        open(dpath, "w").write(dsrc)
        r0 = sh([PY, dpath], cwd=scratch, timeout=900)
        res["demo_without_patch_exit"] = r0.returncode
        r = sh(["git", "-C", scratch, "apply", patch])
        assert r.returncode == 0, "patch does not apply: " + r.stdout
        r1 = sh([PY, dpath], cwd=scratch, timeout=900)
        res["demo_with_patch_exit"] = r1.returncode
        res["demo_with_patch_tail"] = r1.stdout.strip().splitlines()[-3:]
        t = sh("%s -m pytest -q -p no:cacheprovider --timeout=900 tests 2>&1 | tail -4" % PY, cwd=scratch, timeout=3000)
        res["suite_tail"] = t.stdout.strip().splitlines()[-3:]
        m = re.search(r"(\d+) failed, (\d+) passed", t.stdout)
        res["suite_failed"], res["suite_passed"] = (int(m.group(1)), int(m.group(2))) if m else (None, None)
        fails = sorted(set(re.findall(r"FAILED (\S+)", t.stdout)))
        res["suite_failures"] = fails
    finally:
        sh(["git", "-C", "/repo", "worktree", "remove", "--force", scratch])
        shutil.rmtree(scratch, ignore_errors=True)
    # test_roundtrip_translation[test_path12] (hiv.csv) is flaky on the UNCHANGED tree in this sandbox:
    # it samples 10000 of 41127 rows unseeded and 4 rows never round-trip, so it fails in ~2 of 3 runs
    # whatever the change (observed independently by every sub-agent).  It is tolerated here.
    allowed = ("test_path1]", "test_path6]", "test_path12]")
    ok = (res["demo_without_patch_exit"] == 0 and res["demo_with_patch_exit"] != 0
          and res["suite_passed"] in (50, 51) and res["suite_failed"] in (2, 3)
          and res["suite_passed"] + res["suite_failed"] == 53
          and all(f.endswith(allowed) for f in res["suite_failures"]))
    res["confirmed"] = ok
    print(json.dumps(res, indent=1))
    if not ok:
        sys.exit(1)
    dst = os.path.join("/verif/seeded", sid)
    os.makedirs(dst, exist_ok=True)
    shutil.copy(patch, os.path.join(dst, "patch.diff"))
    open(os.path.join(dst, "demo.py"), "w").write(open(demo).read())
    notes = os.path.join(out, "notes.md")
    if os.path.exists(notes):
        shutil.copy(notes, os.path.join(dst, "agent_notes.md"))
    meta = {"property": prop, "source": "independent sub-agent (saw only the property text and a scratch worktree)",
            "agent_worktree": wt, "change_number": int(n), "files": files,
            "needs_to_manifest": "see agent_notes.md", "confirmed_by": "tools/vet_seeded.py in a fresh worktree",
            "what_was_run": res, "detected_by": [prop]}
    json.dump(meta, open(os.path.join(dst, "meta.json"), "w"), indent=1)
    print("kept as", dst)


if __name__ == "__main__":
    main()
